"""Independent readers of the output containers (C13).  Nothing here imports pdpy11.

bin   : <base:u16le><length:u16le><bytes>
RIFF  : field-by-field parse; PCM, mono, 8 bit, consistent sizes
tape  : BK-0010 tape demodulator.  Threshold at 128 -> runs -> periods (a high run followed by a low run).
        Normal format: pilot of >= 4096 short periods, a marker period (~4x short), one long period; 10 short + marker
        + long; then per bit one short sync period followed by a short (0) or long (1) period, least significant bit
        first: header = base, length, 16-byte name; 10 short + marker + long; data; 16-bit checksum; trailer of
        short periods.
        Turbo format: pilot of 1024 equal periods, one marker period ~4x as long, then per bit one pulse whose
        high part is 1 sample (0) or 3 samples (1); gaps (longer low parts) after header and data; two pilot-like
        periods as trailer.
Checksum rule (BK monitor): 16-bit sum with end-around carry.
"""
import struct


class FormatError(Exception):
    pass


def bk_checksum(data):
    s = 0
    for b in data:
        s += b
        if s > 0xFFFF:
            s = (s & 0xFFFF) + (s >> 16)
    return s


def read_bin(blob):
    if len(blob) < 4:
        raise FormatError(f"bin file of {len(blob)} bytes has no header")
    base, length = struct.unpack("<HH", blob[:4])
    body = blob[4:]
    if len(body) != length:
        raise FormatError(f"bin header says {length} bytes, file carries {len(body)}")
    return base, body


def read_riff(blob):
    """Returns (sample_rate, samples) or raises FormatError."""
    if len(blob) < 44:
        raise FormatError("shorter than a RIFF/WAVE header")
    if blob[0:4] != b"RIFF":
        raise FormatError("no RIFF tag")
    riff_size = struct.unpack("<I", blob[4:8])[0]
    if riff_size != len(blob) - 8:
        raise FormatError(f"RIFF size field {riff_size} != file size - 8 = {len(blob) - 8}")
    if blob[8:12] != b"WAVE":
        raise FormatError("no WAVE tag")
    pos = 12
    fmt = None
    data = None
    while pos + 8 <= len(blob):
        tag = blob[pos:pos + 4]
        size = struct.unpack("<I", blob[pos + 4:pos + 8])[0]
        body = blob[pos + 8:pos + 8 + size]
        if len(body) != size:
            raise FormatError(f"chunk {tag!r} size {size} runs past the end of the file")
        if tag == b"fmt ":
            fmt = body
        elif tag == b"data":
            data = body
        pos += 8 + size + (size & 1)
    if fmt is None or data is None:
        raise FormatError("fmt or data chunk missing")
    if len(fmt) < 16:
        raise FormatError("fmt chunk too short")
    audio_format, channels, rate, byte_rate, block_align, bits = struct.unpack("<HHIIHH", fmt[:16])
    if audio_format != 1:
        raise FormatError(f"not PCM (format {audio_format})")
    if channels != 1:
        raise FormatError(f"{channels} channels, expected mono")
    if bits != 8:
        raise FormatError(f"{bits} bits per sample, expected 8")
    if block_align != 1 or byte_rate != rate:
        raise FormatError(f"inconsistent block align {block_align} / byte rate {byte_rate} for rate {rate}")
    if rate <= 0:
        raise FormatError("non-positive sample rate")
    return rate, data


def runs(samples, threshold=128):
    out = []
    cur = None
    n = 0
    for s in samples:
        lvl = s >= threshold
        if lvl is cur:
            n += 1
        else:
            if cur is not None:
                out.append((cur, n))
            cur, n = lvl, 1
    if cur is not None:
        out.append((cur, n))
    return out


def periods(samples):
    r = runs(samples)
    if r and not r[0][0]:
        raise FormatError("signal starts with a low level")
    if len(r) % 2:
        raise FormatError("signal ends in the middle of a period (high run without low run)")
    return [(r[i][1], r[i + 1][1]) for i in range(0, len(r), 2)]


def _bits_to_bytes(bits):
    if len(bits) % 8:
        raise FormatError(f"{len(bits)} bits is not a whole number of bytes")
    return bytes(sum(b << i for i, b in enumerate(bits[k:k + 8])) for k in range(0, len(bits), 8))


def demod_normal(samples):
    """Returns dict(base, length, name, data, checksum, pilot, trailer)."""
    per = [h + l for h, l in periods(samples)]
    if not per:
        raise FormatError("empty signal")
    short = per[0]
    pos = 0

    def is_short(p):
        return abs(p - short) * 4 <= short

    def is_long(p):
        return abs(p - 2 * short) * 4 <= 2 * short and not is_short(p)

    def is_marker(p):
        return p >= 3.5 * short

    def take_short_run():
        nonlocal pos
        n = 0
        while pos < len(per) and is_short(per[pos]):
            pos += 1
            n += 1
        return n

    def take_marker():
        nonlocal pos
        if pos >= len(per) or not is_marker(per[pos]):
            raise FormatError(f"sync marker expected at period {pos}, found {per[pos] if pos < len(per) else 'end'}")
        pos += 1
        if pos >= len(per) or not is_long(per[pos]):
            raise FormatError(f"long period expected after the marker at period {pos}")
        pos += 1

    def take_bits(n):
        nonlocal pos
        bits = []
        for _ in range(n):
            if pos + 1 >= len(per):
                raise FormatError("signal ends inside the bit stream")
            if not is_short(per[pos]):
                raise FormatError(f"bit sync period expected at period {pos}, found {per[pos]}")
            d = per[pos + 1]
            if is_short(d):
                bits.append(0)
            elif is_long(d):
                bits.append(1)
            else:
                raise FormatError(f"bit period of length {d} at period {pos + 1} is neither short nor long")
            pos += 2
        return bits

    pilot = take_short_run()
    if pilot < 4096:
        raise FormatError(f"pilot tone has {pilot} periods, expected at least 4096")
    take_marker()
    gap1 = take_short_run()
    take_marker()
    header = _bits_to_bytes(take_bits(160))
    base, length = struct.unpack("<HH", header[:4])
    name = header[4:20]
    gap2 = take_short_run()
    take_marker()
    data = _bits_to_bytes(take_bits(8 * length))
    checksum = struct.unpack("<H", _bits_to_bytes(take_bits(16)))[0]
    trailer = take_short_run()
    if pos != len(per):
        raise FormatError(f"{len(per) - pos} unexpected periods after the trailer")
    return {"base": base, "length": length, "name": name, "data": data, "checksum": checksum,
            "pilot": pilot, "gaps": (gap1, gap2), "trailer": trailer}


def demod_turbo(samples):
    per = periods(samples)
    if not per:
        raise FormatError("empty signal")
    ph, pl = per[0]
    pos = 0
    while pos < len(per) and per[pos] == (ph, pl):
        pos += 1
    pilot = pos
    if pilot < 1024:
        raise FormatError(f"turbo pilot has {pilot} periods, expected at least 1024")
    if pos >= len(per) or per[pos][0] < 3 * ph or per[pos][1] < 3 * pl:
        raise FormatError(f"turbo marker expected at period {pos}")
    pos += 1

    def take_bits(n, last_gap):
        nonlocal pos
        bits = []
        for i in range(n):
            if pos >= len(per):
                raise FormatError("signal ends inside the bit stream")
            h, l = per[pos]
            if h == 1:
                bits.append(0)
            elif h == 3:
                bits.append(1)
            else:
                raise FormatError(f"turbo pulse of width {h} at period {pos}")
            want_gap = last_gap and i == n - 1
            if not want_gap and l != 2:
                raise FormatError(f"turbo low part of width {l} inside a block at period {pos}")
            if want_gap and l <= 2:
                raise FormatError(f"no pause after block at period {pos}")
            pos += 1
        return bits

    header = _bits_to_bytes(take_bits(160, True))
    base, length = struct.unpack("<HH", header[:4])
    name = header[4:20]
    if length:
        data = _bits_to_bytes(take_bits(8 * length, True))
    else:
        data = b""
    checksum = struct.unpack("<H", _bits_to_bytes(take_bits(16, False)))[0]
    trailer = per[pos:]
    if len(trailer) != 2 or any(p != (ph, pl) for p in trailer):
        raise FormatError(f"turbo trailer {trailer[:4]} is not two pilot periods")
    return {"base": base, "length": length, "name": name, "data": data, "checksum": checksum, "pilot": pilot}


def read_tape(blob, turbo):
    rate, samples = read_riff(blob)
    d = (demod_turbo if turbo else demod_normal)(samples)
    d["rate"] = rate
    return d
