"""Abstract program model (APM): programs whose meaning is known by construction.

* expression / operand / statement constructors (plain tuples and small classes)
* a renderer that turns an instance into source text under a *spelling style*
* reference semantics (layout, scoping, expression values, data bytes, expected instruction decodes)

Nothing here imports pdpy11.  The reference follows the property statements and documented behaviour only.
"""
import random

from . import pdp11_ref

M16 = 0xFFFF

# ------------------------------------------------------------------------------------------------------------------
# expressions:  ("num", v, radix|None) ("sym", name) ("loc", name) ("dot",) ("un", op, e) ("bin", op, l, r)
#               ("chr", s) ("r50", s) ("grp", e)

PREC = {"*": 3, "/": 3, "%": 3, "+": 4, "-": 4, "<<": 5, ">>": 5, "_": 5, "&": 8, "^": 9, "|": 10, "!": 10}
UNARY = ("+", "-", "~", "^C")
INFIX = tuple(PREC)
RAD50 = " ABCDEFGHIJKLMNOPQRSTUVWXYZ$.%0123456789"


# the assembler accepts an instruction at an odd address silently (only data words are checked); checks that want to judge such
# programs (C04: what decides a branch is the distance, not the parity of its ends) switch this on for their process
ODD_INSN_OK = False
ZERO_PRODUCT_SKIPS = False


class RefError(Exception):
    """The reference says this construct must be rejected; .ident is the expected diagnostic identifier (or None = any)."""

    def __init__(self, ident, msg=""):
        super().__init__(f"{ident}: {msg}")
        self.ident = ident


# set by a check whose programs never use a label beyond 0o177777 by value: label values are then plain arithmetic (base + offset)
PAST_END_OK = False


class Unmodelled(Exception):
    """The program left the fragment whose meaning the reference fixes; the case is dropped (counted), never judged."""


def num(v, radix=None):
    return ("num", v, radix)


def ev(e, env):
    """Unbounded integer value of an expression.  env.sym(name), env.loc(name), env.dot()."""
    k = e[0]
    if k == "num":
        return e[1]
    if k == "sym":
        return env.sym(e[1])
    if k == "loc":
        return env.loc(e[1])
    if k == "dot":
        return env.dot()
    if k == "grp":
        return ev(e[1], env)
    if k == "chr":
        b = env.encode(e[1])
        if len(b) > 2:
            raise RefError("too-long-string", e[1])
        return int.from_bytes(b.ljust(2, b"\0"), "little")
    if k == "r50":
        s = e[1].upper().ljust(3)
        return (RAD50.index(s[0]) * 40 + RAD50.index(s[1])) * 40 + RAD50.index(s[2])
    if k == "un":
        v = ev(e[2], env)
        return {"+": v, "-": -v, "~": ~v, "^C": ~v}[e[1]]
    if k == "bin":
        op = e[1]
        if op == "*" and ZERO_PRODUCT_SKIPS:
            # predicate of the listed finding 'zero-product-unevaluated': an operand whose co-factor is zero is not evaluated at all,
            # so an error inside it goes unreported and the product is 0
            vals = []
            for sub in (e[2], e[3]):
                try:
                    vals.append(ev(sub, env))
                except RefError as ex:
                    vals.append(ex)
            if isinstance(vals[0], RefError) and not isinstance(vals[1], RefError) and vals[1] == 0:
                return 0
            if isinstance(vals[1], RefError) and not isinstance(vals[0], RefError) and vals[0] == 0:
                return 0
            for v in vals:
                if isinstance(v, RefError):
                    raise v
            return vals[0] * vals[1]
        a, b = ev(e[2], env), ev(e[3], env)
        if op == "+":
            return a + b
        if op == "-":
            return a - b
        if op == "*":
            return a * b
        if op in "/%":
            if b == 0:
                raise RefError("arithmetic-error", "division by zero")
            return a // b if op == "/" else a % b
        if op == "<<":
            if b < 0:
                raise RefError("arithmetic-error", "negative shift")
            return a << b
        if op == ">>":
            if b < 0:
                raise RefError("arithmetic-error", "negative shift")
            return a >> b
        if op == "_":
            return a << b if b >= 0 else a >> -b
        if op == "&":
            return a & b
        if op == "^":
            return a ^ b
        if op in "|!":
            return a | b
    raise ValueError(e)


def walk(e):
    yield e
    k = e[0]
    if k in ("un",):
        yield from walk(e[2])
    elif k == "bin":
        yield from walk(e[2])
        yield from walk(e[3])
    elif k == "grp":
        yield from walk(e[1])


def depth(e):
    k = e[0]
    if k == "un":
        return 1 + depth(e[2])
    if k == "bin":
        return 1 + max(depth(e[2]), depth(e[3]))
    if k == "grp":
        return depth(e[1])
    return 0


def shape(e):
    k = e[0]
    if k == "un":
        return f"{e[1]}({shape(e[2])})"
    if k == "bin":
        return f"({shape(e[2])}{e[1]}{shape(e[3])})"
    if k == "grp":
        return f"[{shape(e[1])}]"
    return k[0]


# ------------------------------------------------------------------------------------------------------------------
# spelling style

class Style:
    """Choices of the renderer.  Style(None) is the plain canonical spelling."""

    def __init__(self, rnd=None, **kw):
        self.rnd = rnd
        self.case = 0.0            # probability of flipping the case of a letter token
        self.ws = 0.0              # probability of extra whitespace / blank lines / comments
        self.radix = 0.0           # probability of respelling a plain number in another radix
        self.brackets = 0.0        # probability of a redundant bracket
        self.bracket_kinds = ("(",)  # kinds used where a bracket is needed
        self.regs = 0.0            # probability of rN -> %N, sp/pc <-> r6/r7
        self.legacy = 0.0          # probability of (rN) -> @rN
        self.synonyms = 0.0        # probability of a mnemonic / directive synonym
        self.implicit_word = 0.0   # probability of '.word a, b' -> 'a, b'
        self.comments = 0.0
        self.tabs = 0.0
        self.escapes = 0.0         # probability of spelling a string character with an escape although it is not needed
        for k, v in kw.items():
            setattr(self, k, v)

    @classmethod
    def random(cls, rnd, strength=0.5):
        s = cls(rnd)
        for attr in ("case", "ws", "radix", "brackets", "regs", "legacy", "synonyms", "implicit_word", "comments", "tabs"):
            setattr(s, attr, rnd.choice([0.0, strength, strength, 1.0]) if rnd.random() < 0.8 else 0.0)
        s.bracket_kinds = rnd.choice([("(",), ("<",), ("(", "<"), ("(", "<", "^"), ("^",)])
        return s

    def p(self, prob):
        return self.rnd is not None and prob > 0 and self.rnd.random() < prob

    def caseflip(self, text):
        if not self.p(self.case):
            return text
        mode = self.rnd.choice(["upper", "lower", "mixed"])
        if mode == "upper":
            return text.upper()
        if mode == "lower":
            return text.lower()
        return "".join(c.upper() if self.rnd.random() < 0.5 else c.lower() for c in text)

    def sp(self, minimal=" "):
        if not self.p(self.ws):
            return minimal
        if self.rnd.random() < 0.08:
            # a long run of blanks (longer than any look-ahead window one might think of)
            return minimal + self.rnd.choice([" " * 9, " " * 17, "\t\t\t", " " * 7 + "\t"])
        return minimal + self.rnd.choice([" ", "  ", "\t", " \t "]) if minimal else self.rnd.choice(["", " ", "  ", "\t"])


PLAIN = Style(None)

SYNONYMS = [("bcc", "bhis"), ("bcs", "blo"), ("ccc", "clnzvc"), ("scc", "senzvc"), ("halt", "hlt"), ("trap", "sys"),
            ("ret", "return"), ("med", "med6x"), ("mns", "msn", "ldsc"), ("mpp", "sta0"), ("mrs", "stb0"),
            ("clrf", "clrd"), ("tstf", "tstd"), ("absf", "absd"), ("negf", "negd"), ("mulf", "muld"), ("modf", "modd"),
            ("addf", "addd"), ("ldf", "ldd"), ("subf", "subd"), ("cmpf", "cmpd"), ("divf", "divd"), ("stf", "std"),
            ("stcfi", "stcfl", "stcdi", "stcdl"), ("stcfd", "stcdf"), ("ldcif", "ldcid", "ldclf", "ldcld"), ("ldcfd", "ldcdf"),
            ("jmp", "callr"), (".byte", ".db"), (".word", ".dw")]
SYN_OF = {}
for _grp in SYNONYMS:
    for _n in _grp:
        SYN_OF[_n] = _grp


def r_num(v, radix, style, ctx):
    """Spell integer v.  ctx 'branch' forbids bare digit strings (they would be local labels)."""
    neg = v < 0
    a = -v if neg else v
    if radix is None:
        radix = "o"
        if ctx == "branch":
            # bare digits, 0x.., 0o.., 0b.. are all valid local-label names: use spellings that are numbers only
            radix = style.rnd.choice(["d", "^X", "^O", "^B", "^D", "d"]) if (style.rnd and style.radix > 0) else "d"
        elif style.p(style.radix):
            radix = style.rnd.choice(["d", "x", "0o", "b", "^X", "^O", "^B", "^D", "d", "x"])
        if a > 0xFFFF and radix in ("b", "^B"):
            radix = "x" if ctx != "branch" else "^X"
    if radix == "o":
        s = f"{a:o}"
    elif radix == "d":
        s = f"{a}."
    elif radix == "x":
        s = "0x" + style.caseflip(f"{a:x}")
        if style.p(style.case):
            s = "0X" + s[2:]
    elif radix == "0o":
        s = f"0o{a:o}"
    elif radix == "b":
        s = f"0b{a:b}"
    elif radix == "^X":
        s = style.caseflip("^X") + style.caseflip(f"{a:x}")
    elif radix == "^O":
        s = style.caseflip("^O") + f"{a:o}"
    elif radix == "^B":
        s = style.caseflip("^B") + f"{a:b}"
    elif radix == "^D":
        s = style.caseflip("^D") + f"{a}"
    else:
        raise ValueError(radix)
    return ("-" if neg else "") + s


ESC = {"\n": "\\n", "\r": "\\r", "\t": "\\t", "\\": "\\\\", "'": "\\'", "\"": "\\\"", "/": "\\/"}


def r_char(c):
    if c in ESC:
        return ESC[c]
    if ord(c) < 0x20 or ord(c) == 0x7F:
        return f"\\x{ord(c):02x}"
    return c


def _bracket(inner, style, needed):
    kinds = style.bracket_kinds if style.rnd else ("(",)
    kind = style.rnd.choice(kinds) if style.rnd else "("
    if kind == "^":
        free = [d for d in "/?\\:|=[]" if d not in inner]
        if free:
            d = style.rnd.choice(free)
            return f"^{d}{inner}{d}"
        kind = "<"
    if kind == "<":
        if inner.endswith(">"):
            inner += " "
        return f"<{inner}>"
    return f"({inner})"


def r_expr(e, style=PLAIN, ctx=None, parent_prec=99, side=None, at_start=True):
    """Render with only the brackets the reference precedence table requires, plus random redundant ones."""
    k = e[0]
    if k == "num":
        s = r_num(e[1], e[2], style, ctx)
    elif k == "sym":
        s = style.caseflip(e[1])
    elif k == "loc":
        s = e[1] if (ctx == "branch" or not e[1].isdigit()) else e[1] + ":"
    elif k == "dot":
        s = "."
    elif k == "chr":
        s = ("'" if len(e[1]) == 1 else "\"") + "".join(r_char(c) for c in e[1])
    elif k == "r50":
        s = style.caseflip("^R") + style.caseflip(e[1])
    elif k == "grp":
        return _bracket(r_expr(e[1], style, ctx), style, True)
    elif k == "un":
        op = e[1] if e[1] != "^C" else style.caseflip("^C")
        operand = e[2]
        if operand[0] == "bin":
            s_op = _bracket(r_expr(operand, style, ctx), style, True)
        else:
            s_op = r_expr(operand, style, ctx, 2, "u", at_start=True)
        if s_op[0] in "+-" and op in "+-":
            s_op = " " + s_op
        s = op + s_op
        if not at_start:
            # the assembler accepts prefix operators only at the start of an expression or bracket (a sign on a number aside)
            return _bracket(s, style, True)
        return _maybe_redundant(s, style)
    elif k == "bin":
        p = PREC[e[1]]
        ls = r_expr(e[2], style, ctx, p, "l", at_start=at_start)
        rs = r_expr(e[3], style, ctx, p, "r", at_start=False)
        s = ls + style.sp(" ") + e[1] + style.sp(" ") + rs
        need = (p > parent_prec) or (p == parent_prec and side == "r")
        if need:
            return _bracket(s, style, True)
        return _maybe_redundant(s, style, is_bin=True)
    else:
        raise ValueError(e)
    return _maybe_redundant(s, style)


def _maybe_redundant(s, style, is_bin=False):
    if style.p(style.brackets * (0.5 if is_bin else 0.15)):
        return _bracket(s, style, False)
    return s


# ------------------------------------------------------------------------------------------------------------------
# operands:  ("reg", n) ("mode", m, n) m in 1..5  ("idx", e, n) ("idxd", e, n) ("imm", e) ("abs", e) ("rel", e) ("reld", e)
#            ("acc", n) ("inl", e) ("br", e)

def r_reg(n, style):
    names = [f"r{n}"]
    if n == 6:
        names = ["sp"]
    elif n == 7:
        names = ["pc"]
    if style.p(style.regs):
        alt = [f"r{n}", f"%{n}"]
        if n == 6:
            alt.append("sp")
        if n == 7:
            alt.append("pc")
        names = [style.rnd.choice(alt)]
    return style.caseflip(names[0])


def r_operand(o, style=PLAIN):
    k = o[0]
    if k == "reg":
        return r_reg(o[1], style)
    if k == "mode":
        m, n = o[1], o[2]
        r = r_reg(n, style)
        w = (lambda: style.sp("")) if style.rnd else (lambda: "")     # blanks are allowed between all the parts of an operand
        if m == 1:
            if style.p(style.legacy):
                return "@" + w() + r
            return f"({w()}{r}{w()})"
        return {2: f"({w()}{r}{w()}){w()}+", 3: f"@{w()}({w()}{r}{w()}){w()}+", 4: f"-{w()}({w()}{r}{w()})", 5: f"@{w()}-{w()}({w()}{r}{w()})"}[m]
    if k in ("idx", "idxd"):
        e = o[1]
        s = r_expr(e, style)
        atom = e[0] in ("sym", "dot") or (e[0] == "num") or (e[0] == "loc" and not e[1].isdigit())
        if not atom and not (e[0] == "bin" and _hoistable(e) and (style.rnd is None or style.rnd.random() < 0.5)):
            if not (e[0] == "grp"):
                s = _bracket(s, style, True)
        w = (lambda: style.sp("")) if style.rnd else (lambda: "")
        return ("@" + w() if k == "idxd" else "") + s + w() + f"({w()}{r_reg(o[2], style)}{w()})"
    if k == "imm":
        return "#" + (style.sp("") if style.rnd else "") + r_expr(o[1], style)
    if k == "abs":
        return "@" + (style.sp("") if style.rnd else "") + "#" + (style.sp("") if style.rnd else "") + r_expr(o[1], style)
    if k == "rel":
        return _rel_expr(o[1], style)
    if k == "reld":
        return "@" + _rel_expr(o[1], style)
    if k == "acc":
        return style.caseflip(f"ac{o[1]}")
    if k == "inl":
        return r_expr(o[1], style)
    if k == "br":
        return r_expr(o[1], style, ctx="branch")
    raise ValueError(o)


def _hoistable(e):
    """a+2(r0)-style spelling is only used for chains of + - * whose rightmost leaf is a plain atom."""
    while e[0] == "bin":
        if e[1] not in "+-*":
            return False
        e = e[3]
    return e[0] in ("num", "sym") and not (e[0] == "num" and e[1] < 0)


def _rel_expr(e, style):
    s = r_expr(e, style)
    # a relative operand must not look like a register form: '(x)' alone is fine unless x is a register; we never
    # generate symbols named like registers, so nothing to do.  A leading '-(' would be autodecrement syntax only with a register.
    return s


# ------------------------------------------------------------------------------------------------------------------
# statements (plain classes; kind in .k)

class St:
    def __init__(self, k, **kw):
        self.k = k
        self.labels = []      # list of (name, kind) kind in 'label', 'extern', 'local'
        self.comment = None
        self.__dict__.update(kw)

    def __repr__(self):
        return f"St({self.k}, {({k: v for k, v in self.__dict__.items() if k not in ('k',)})})"


def insn(name, *operands):
    return St("insn", name=name, ops=list(operands))


def data(directive, *exprs):
    return St("data", d=directive, exprs=list(exprs))


def string(directive, chunks):
    """chunks: list of ('s', text) | ('n', expr)."""
    return St("str", d=directive, chunks=chunks, quote='"')


def blk(directive, expr):
    return St("blk", d=directive, expr=expr)


def assign(name, expr, extern=False):
    return St("assign", name=name, expr=expr, extern=extern)


def dotassign(expr):
    return St("dot", expr=expr)


def label(name, extern=False):
    s = St("nop")
    s.labels.append((name, "extern" if extern else ("local" if name[0].isdigit() else "label")))
    return s


def repeat(count, body):
    return St("repeat", count=count, body=body)


def wordlist(*exprs):
    return St("wordlist", exprs=list(exprs))


def simple(directive, *args):
    return St("simple", d=directive, args=list(args))   # .even .odd .end .once .list ... make_* (args are strings)


def include(path):
    return St("include", path=path)


def insert_file(path):
    return St("insert", path=path)


def link(expr):
    return St("link", expr=expr)


def extern(*names):
    return St("extern", names=list(names))


class SrcFile:
    def __init__(self, name, stmts):
        self.name = name
        self.stmts = stmts


class Program:
    def __init__(self, files, aux=None, blobs=None, charset="bk"):
        self.files = files            # linked in order
        self.aux = aux or {}          # path -> SrcFile (included files)
        self.blobs = blobs or {}      # path -> bytes (inserted files)
        self.charset = charset


# ------------------------------------------------------------------------------------------------------------------
# rendering statements

def r_string_chunks(chunks, quote, style):
    out = []
    for kind, v in chunks:
        if kind == "n":
            inner = r_expr(v, style)
            out.append("<" + inner + (" " if inner.endswith(">") else "") + ">")
        else:
            body = []
            for c in v:
                if c in "\n\r\t\\" or ord(c) < 0x20 or c == quote:
                    body.append(r_char(c))
                elif style.p(style.escapes) and ord(c) < 0x80:
                    body.append(style.rnd.choice([f"\\x{ord(c):02x}", f"\\X{ord(c):02X}", ESC.get(c, c), "\\\n" + c, f"\\\n\\x{ord(c):02x}",
                                                  "\\\n" + ESC.get(c, c), "\\\n\\\n" + c]))
                else:
                    body.append(c)
            if style.p(style.escapes * 0.3):
                body.append("\\\n")          # a line continuation as the last thing in the string
            out.append(quote + "".join(body) + quote)
    return style.sp(" ").join(out) if out else quote + quote


def r_stmt(st, style=PLAIN, indent=""):
    """Returns a list of source lines."""
    lines = []
    head = ""
    for name, kind in st.labels:
        nm = name if kind == "local" else style.caseflip(name)
        head += nm + ("::" if kind == "extern" else ":") + style.sp(" ")
    k = st.k
    body = ""
    if k == "nop":
        body = ""
    elif k == "insn":
        name = st.name
        if style.p(style.synonyms) and name in SYN_OF:
            name = style.rnd.choice(SYN_OF[name])
        body = style.caseflip(name)
        if st.ops:
            body += style.sp(" ") + ("," + style.sp(" ")).join(r_operand(o, style) for o in st.ops)
    elif k == "data":
        d = st.d
        if style.p(style.synonyms) and d in SYN_OF:
            d = style.rnd.choice(SYN_OF[d])
        words = ("," + style.sp(" ")).join(r_expr(e, style) for e in st.exprs)
        first = st.exprs[0] if st.exprs else None
        if st.d == ".word" and st.exprs and style.p(style.implicit_word) and first[0] == "num" and first[1] >= 0 and words[0].isdigit():
            # an implicit word list must start with a digit: a line starting with '^', '(', '<', '-' ... would be parsed as the
            # continuation of the previous statement's last expression (newlines are plain whitespace to the parser)
            body = words
        else:
            body = style.caseflip(d) + (style.sp(" ") + words if words else "")
    elif k == "wordlist":
        body = ("," + style.sp(" ")).join(r_expr(e, style) for e in st.exprs)
        if getattr(st, "name_led", False) and style.rnd is not None and body[:1].isalpha():
            pass        # a name followed by an operator that cannot start a statement: an implicit word list as well (the generator vouches)
        elif not body[:1].isdigit():
            body = style.caseflip(".word") + " " + body
    elif k == "str":
        body = style.caseflip(st.d) + style.sp(" ") + r_string_chunks(st.chunks, st.quote, style)
    elif k == "blk":
        body = style.caseflip(st.d) + style.sp(" ") + r_expr(st.expr, style)
    elif k == "assign":
        body = style.caseflip(st.name) + style.sp(" ") + ("==" if st.extern else "=") + style.sp(" ") + r_expr(st.expr, style)
    elif k == "dot":
        body = "." + style.sp(" ") + "=" + style.sp(" ") + r_expr(st.expr, style)
    elif k == "link":
        body = style.caseflip(".link") + style.sp(" ") + r_expr(st.expr, style)
    elif k == "simple":
        body = style.caseflip(st.d) + ((style.sp(" ") + ", ".join(st.args)) if st.args else "")
    elif k == "include":
        body = style.caseflip(".include") + f' "{getattr(st, "spell", None) or st.path}"'
    elif k == "insert":
        body = style.caseflip("insert_file") + f' "{getattr(st, "spell", None) or st.path}"'
    elif k == "extern":
        body = style.caseflip(".extern") + " " + ", ".join(style.caseflip(n) for n in st.names)
    elif k == "raw":
        body = st.text
    elif k == "repeat":
        first = indent + head + style.caseflip(".repeat") + style.sp(" ") + r_expr(st.count, style) + style.sp(" ") + "{"
        lines.append(first)
        for b in st.body:
            lines.extend(r_stmt(b, style, indent + "    "))
        lines.append(indent + "}")
        last = st.body[-1] if st.body else None
        if style.rnd is not None and style.p(0.5) and len(lines) >= 3 and last is not None and not last.labels and \
                (last.k in ("insn", "data", "wordlist", "blk") or (last.k == "simple" and not last.args)) and lines[-2].strip() and ";" not in lines[-2]:
            # the closing brace on the line of the body's last statement (the whole block on one line if that is the only statement)
            if len(lines) == 3 and style.p(0.5):
                lines = [lines[0] + style.sp(" ") + lines[1].strip() + style.sp(" ") + "}"]
            else:
                lines = lines[:-2] + [lines[-2] + style.sp(" ") + "}"]
        return _decorate(lines, st, style)
    else:
        raise ValueError(k)
    lead = indent + (style.rnd.choice(["", " ", "\t", "    "]) if style.p(style.ws) else ("\t" if style.p(style.tabs) else ""))
    lines.append(lead + head + body)
    return _decorate(lines, st, style)


COMMENT_WORDS = ["mov r0, r1", "label:", ".word 1", "x = 5", "\"quoted\"", "'c", "{", "}", "юникод", ";;", ".end", "\t tab", "<>"]


def _decorate(lines, st, style):
    if st.comment:
        lines[-1] += " ; " + st.comment
    elif style.p(style.comments):
        lines[-1] += style.sp(" ") + ";" + style.rnd.choice(COMMENT_WORDS)
    if style.p(style.ws * 0.3):
        lines.append(style.rnd.choice(["", "   ", "\t", "; " + style.rnd.choice(COMMENT_WORDS)]))
    return lines


def r_file(f, style=PLAIN):
    lines = []
    for st in f.stmts:
        lines.extend(r_stmt(st, style))
    return "\n".join(lines) + "\n"


# ------------------------------------------------------------------------------------------------------------------
# reference semantics

def encode_ref(text, charset):
    """Bytes of a string in the output charset.  'bk' = ASCII below 0x7F, KOI8-R from 0xC0, C1 controls 0x80-0x9F as
    themselves, the frozen pseudographics column in between."""
    if charset != "bk":
        try:
            return text.encode(charset)
        except UnicodeEncodeError as ex:
            raise RefError("invalid-character", str(ex)) from None
    from .bk_frozen import FROZEN_CHARS
    out = bytearray()
    for ch in text:
        c = ord(ch)
        if c < 0x7F or 0x80 <= c < 0xA0:
            out.append(c)
            continue
        try:
            b = ch.encode("koi8_r")
        except UnicodeEncodeError:
            b = b""
        if len(b) == 1 and b[0] >= 0xC0:
            out += b
        elif ch in FROZEN_CHARS:
            out.append(FROZEN_CHARS[ch])
        else:
            raise RefError("invalid-character", repr(ch))
    return bytes(out)


def fit(v, bits, what="value"):
    """Data-field rule: |v| < 2**bits, stored modulo 2**bits."""
    if v >= (1 << bits) or v <= -(1 << bits):
        raise RefError("value-out-of-bounds", f"{what} {v} does not fit {bits} bits")
    return v % (1 << bits)


class Seg:
    """One emitting statement instance in the expected layout (a statement inside .repeat gives one Seg per copy)."""
    __slots__ = ("addr", "size", "bytes", "insn", "st", "fid", "scope", "depth")

    def __init__(self, addr, st, fid, scope, depth):
        self.addr, self.st, self.fid, self.scope, self.depth = addr, st, fid, scope, depth
        self.size = 0
        self.bytes = None       # exact expected bytes, or None for an instruction (decode-compare)
        self.insn = None        # (mnemonic, [operand expectations])


class Def:
    __slots__ = ("id", "kind", "name", "fid", "scope", "st", "expr", "extern")


class _Env:
    def __init__(self, ref, fid, scope, dot):
        self.ref, self.fid, self.scope, self._dot = ref, fid, scope, dot

    def dot(self):
        return self._dot

    def encode(self, s):
        return encode_ref(s, self.ref.prog.charset)

    def loc(self, name):
        d = self.ref.locals.get((self.fid, self.scope, name.lower()))
        if d is None:
            raise RefError("undefined-symbol", f"local label {name}")
        return self.ref.addr_value(d)

    def sym(self, name):
        d = self.ref.lookup(self.fid, name)
        if d is None:
            raise RefError("undefined-symbol", name)
        return self.ref.value_of(d)


class Ref:
    """Reference layout + scoping + values for a Program.

    r = Ref(prog).run()            -> r.base, r.segs, r.image (instruction bytes are 0xAA placeholders), r.labels
    raises RefError(ident)         -> the reference says the program must be rejected (ident = expected diagnostic)
    raises Unmodelled              -> outside the fragment whose meaning the statements fix; the case is dropped
    """

    MAX_PASSES = 10

    def __init__(self, prog, default_base=0o1000):
        self.prog = prog
        self.default_base = default_base
        self.locals = {}
        self.private = {}
        self.exported = {}
        self.defs = []
        self.struct_errors = []
        self.extern_all = set()
        self.pending_exports = []
        self.times_included = {}
        self.units = []
        self.link_sites = []
        self.fid_n = self.scope_n = 0
        self.label_addr = {}
        self.prev_addr = {}
        self.assign_dot = {}
        self.prev_assign_dot = {}
        self.site_dot = {}
        self.segs = []
        self.end = None
        self.base = None
        self.image = None
        self.unknown_used = False
        self._evaluating = set()

    # -- lookups -------------------------------------------------------------------------------------------------------
    def lookup(self, fid, name):
        n = name.lower()
        d = self.private.get((fid, n))
        return d if d is not None else self.exported.get(n)

    def addr_value(self, d):
        if d.id in self.label_addr:
            return self.label_addr[d.id]
        if d.id in self.prev_addr:
            return self.prev_addr[d.id]
        self.unknown_used = True
        return 0

    def value_of(self, d):
        if d.kind == "label":
            return self.addr_value(d)
        if d.id in self._evaluating:
            raise Unmodelled("cyclic constant definition")
        self._evaluating.add(d.id)
        try:
            if d.id in self.assign_dot:
                dot = self.assign_dot[d.id]
            elif d.id in self.prev_assign_dot:
                dot = self.prev_assign_dot[d.id]
            else:
                dot = 0
                if any(x[0] == "dot" for x in walk(d.expr)):
                    self.unknown_used = True
            return ev(d.expr, _Env(self, d.fid, d.scope, dot))
        finally:
            self._evaluating.discard(d.id)

    # -- structure pass: files, scopes, definitions (independent of addresses) ----------------------------------------
    def _new_def(self, kind, name, fid, scope, st, expr=None, extern=False):
        d = Def()
        d.id, d.kind, d.name, d.fid, d.scope, d.st, d.expr, d.extern = len(self.defs) + 1, kind, name, fid, scope, st, expr, extern
        self.defs.append(d)
        return d

    def _declare(self, d, local):
        n = d.name.lower()
        if local:
            key = (d.fid, d.scope, n)
            if key in self.locals:
                self.struct_errors.append("duplicate-symbol")
            else:
                self.locals[key] = d
            return
        if (d.fid, n) in self.private:
            self.struct_errors.append("duplicate-symbol")
            return
        self.private[(d.fid, n)] = d
        if d.extern or d.fid in self.extern_all:
            self._export(d)

    def _export(self, d):
        n = d.name.lower()
        if n in self.exported:
            if self.exported[n] is not d:
                self.struct_errors.append("duplicate-symbol")
            else:
                raise Unmodelled("the same symbol exported twice")
        else:
            self.exported[n] = d

    def _unit(self, f):
        self.fid_n += 1
        self.scope_n += 1
        self.times_included[f.name] = self.times_included.get(f.name, 0) + 1
        unit = {"fid": self.fid_n, "file": f, "items": []}
        self._block(f.stmts, unit["fid"], unit["items"], f, self.scope_n, 0)
        return unit

    def _block(self, stmts, fid, items, f, scope, depth):
        for st in stmts:
            for name, kind in st.labels:
                if depth:
                    self.struct_errors.append("unexpected-symbol-definition")
                    continue
                d = self._new_def("label", name, fid, scope, st, extern=(kind == "extern"))
                items.append(("label", d))
                self._declare(d, kind == "local")
                if kind != "local":
                    self.scope_n += 1
                    scope = self.scope_n
            k = st.k
            if k == "nop":
                continue
            if k == "assign":
                if depth:
                    self.struct_errors.append("unexpected-symbol-definition")
                    continue
                d = self._new_def("const", st.name, fid, scope, st, expr=st.expr, extern=st.extern)
                items.append(("assign", d))
                self._declare(d, False)
            elif k == "extern":
                for n in st.names:
                    if n.lower() == "all":
                        for (ff, _nn), dd in list(self.private.items()):
                            if ff == fid:
                                self._export(dd)
                        self.extern_all.add(fid)
                    else:
                        self.pending_exports.append((fid, n))
            elif k == "include":
                if depth:
                    raise Unmodelled(".include inside .repeat")
                items.append(("include", self._unit(self.prog.aux[st.path])))
            elif k == "repeat":
                sub = []
                # a .repeat body defines nothing; its references see the enclosing scope (body written out n times)
                self._block(st.body, fid, sub, f, scope, depth + 1)
                items.append(("repeat", st, scope, sub))
            elif k == "simple" and st.d == ".end":
                if depth:
                    raise Unmodelled(".end inside .repeat")
                break
            elif k == "simple" and st.d == ".once":
                if depth:
                    raise Unmodelled(".once inside .repeat")
                if self.times_included.get(f.name, 0) > 1:
                    break
            else:
                if k == "link" or (k == "dot" and not self.link_sites and not self._emitted_before):
                    self.link_sites.append((st, fid, scope))
                    if k == "dot":
                        st.is_base = True
                if k == "dot" and not getattr(st, "is_base", False) and not self.link_sites:
                    raise Unmodelled("'. =' before any base was set (it would set the base)")
                items.append(("stmt", st, scope))
                if k not in ("link", "extern") and not (k == "simple" and st.d not in (".even", ".odd")):
                    self._emitted_before = True

    def build_structure(self):
        self._emitted_before = False
        for f in self.prog.files:
            self.units.append(self._unit(f))
        for fid, n in self.pending_exports:
            d = self.private.get((fid, n.lower()))
            if d is None:
                raise Unmodelled(".extern of a name the file does not define")
            self._export(d)
        if len(self.link_sites) > 1:
            self.struct_errors.append("address-conflict")

    # -- layout ------------------------------------------------------------------------------------------------------
    def run(self, base=None):
        self.build_structure()
        if self.struct_errors:
            raise RefError(self.struct_errors[0], "structure")
        trial = self.default_base if base is None else base
        if self.link_sites and base is None:
            st, fid, scope = self.link_sites[0]
            for _ in range(8):
                self._layout(trial)
                v = ev(st.expr, _Env(self, fid, scope, self.site_dot.get(id(st), trial)))
                if v == trial:
                    break
                trial = v
                fit(trial, 16, "link address")
            else:
                # base = f(base) has no fixed point within reach: the base depends on itself
                raise RefError("recursive-definition", "the link base does not converge")
            # genuine self-dependence: move the base (same parity) and see whether the link expression follows
            other = trial + 2 if trial + 2 <= 0xFFF0 else trial - 2
            self._layout(other)
            v2 = ev(st.expr, _Env(self, fid, scope, self.site_dot.get(id(st), other)))
            if v2 != trial:
                raise RefError("recursive-definition", "the link base depends on itself")
            fit(trial, 16, "link address")
            if trial < 0:
                raise Unmodelled("negative link base")
        self._layout(trial)
        self.base = trial
        out = bytearray()
        for seg in self.segs:
            self._content(seg, _Env(self, seg.fid, seg.scope, seg.addr))
            if seg.bytes is not None:
                if len(seg.bytes) != seg.size:
                    raise AssertionError(f"reference size mismatch {seg.st!r}: {len(seg.bytes)} vs {seg.size}")
                out += seg.bytes
            else:
                out += b"\xAA" * seg.size
        self.image = bytes(out)
        if self.base + len(self.image) > 0x10000 and not PAST_END_OK:
            raise Unmodelled("image runs past the end of the address space")
        return self

    def _layout(self, base):
        self.label_addr, self.assign_dot = {}, {}
        self.prev_addr, self.prev_assign_dot = {}, {}
        last = None
        for _ in range(self.MAX_PASSES):
            self.prev_addr, self.prev_assign_dot = self.label_addr, self.assign_dot
            self.label_addr, self.assign_dot = {}, {}
            self.segs = []
            self.site_dot = {}
            self.unknown_used = False
            pos = base
            for unit in self.units:
                pos = self._layout_items(unit["items"], unit["fid"], pos, 0)
            self.end = pos
            state = (self.label_addr, self.assign_dot, pos)
            if not self.unknown_used and last is not None and state == last:
                return
            last = (dict(self.label_addr), dict(self.assign_dot), pos)
        raise Unmodelled("layout does not converge")

    def _layout_items(self, items, fid, pos, depth):
        for it in items:
            kind = it[0]
            if kind == "label":
                self.label_addr[it[1].id] = pos
            elif kind == "assign":
                self.assign_dot[it[1].id] = pos
            elif kind == "include":
                pos = self._layout_items(it[1]["items"], it[1]["fid"], pos, depth)
            elif kind == "repeat":
                st, scope, sub = it[1], it[2], it[3]
                n = ev(st.count, _Env(self, fid, scope, pos))
                if n < 0:
                    raise RefError("value-out-of-bounds", "negative repeat count")
                if n > 4096:
                    raise Unmodelled("huge repeat count")
                for _ in range(n):
                    pos = self._layout_items(sub, fid, pos, depth + 1)
            else:
                st, scope = it[1], it[2]
                self.site_dot[id(st)] = pos
                seg = Seg(pos, st, fid, scope, depth)
                seg.size = self._size(st, _Env(self, fid, scope, pos))
                self.segs.append(seg)
                pos += seg.size
        return pos

    def _size(self, st, env):
        k = st.k
        if k == "insn":
            return 2 + 2 * sum(1 for o in st.ops if o[0] in ("idx", "idxd", "imm", "abs", "rel", "reld"))
        if k == "data":
            return {".byte": 1, ".word": 2, ".dword": 4}[st.d] * max(1, len(st.exprs))
        if k == "wordlist":
            return 2 * len(st.exprs)
        if k == "str":
            if st.d == ".rad50":
                chars = sum(1 if kind == "n" else len(v) for kind, v in st.chunks)
                return 2 * ((chars + 2) // 3)
            n = sum(1 if kind == "n" else len(encode_ref(v, self.prog.charset)) for kind, v in st.chunks)
            return n + (1 if st.d == ".asciz" else 0)
        if k == "blk":
            v = ev(st.expr, env)
            if st.d == ".align":
                if v < 0:
                    raise RefError("value-out-of-bounds", "negative alignment")
                if v == 0:
                    raise Unmodelled(".align 0")
                return (-env.dot()) % v
            if v < 0 or v >= 1 << 16:
                raise RefError("value-out-of-bounds", "count")
            return v * (2 if st.d == ".blkw" else 1)
        if k == "simple":
            if st.d == ".even":
                return env.dot() % 2
            if st.d == ".odd":
                return 1 - env.dot() % 2
            return 0
        if k == "dot":
            if getattr(st, "is_base", False):
                return 0
            v = ev(st.expr, env)
            fit(v, 16, "link address")
            if v < env.dot():
                raise RefError("value-out-of-bounds", "backward skip")
            return v - env.dot()
        if k == "insert":
            return len(self.prog.blobs[st.path])
        if k in ("link", "extern", "nop"):
            return 0
        raise ValueError(k)

    # -- contents ----------------------------------------------------------------------------------------------------
    def _content(self, seg, env):
        st = seg.st
        k = st.k
        if k == "insn":
            if seg.addr % 2 and not ODD_INSN_OK:
                raise Unmodelled("instruction at an odd address")
            kinds = pdp11_ref.MNEMONICS[st.name][1]
            exp = []
            ext_addr = seg.addr + 2
            for o, kind in zip(st.ops, kinds):
                ok = o[0]
                if ok == "reg":
                    exp.append(("REG", o[1]))
                elif ok == "mode":
                    exp.append(("G", o[1], o[2], None))
                elif ok in ("idx", "idxd"):
                    exp.append(("G", 6 if ok == "idx" else 7, o[2], fit(ev(o[1], env), 16, "index")))
                    ext_addr += 2
                elif ok == "imm":
                    exp.append(("G", 2, 7, fit(ev(o[1], env), 16, "immediate")))
                    ext_addr += 2
                elif ok == "abs":
                    exp.append(("G", 3, 7, fit(ev(o[1], env), 16, "absolute")))
                    ext_addr += 2
                elif ok in ("rel", "reld"):
                    exp.append(("G", 6 if ok == "rel" else 7, 7, (ev(o[1], env) - ext_addr - 2) & M16))
                    ext_addr += 2
                elif ok == "acc":
                    exp.append(("ACC", o[1]))
                elif ok == "inl":
                    v = ev(o[1], env)
                    if v < 0:
                        raise Unmodelled("negative inline number")
                    if v >= 1 << int(kind[1]):
                        raise RefError("value-out-of-bounds", "inline field")
                    exp.append(("N", v))
                elif ok == "br":
                    target = ev(o[1], env)
                    dist = target - (seg.addr + 2)
                    lo, hi = (-126, 0) if kind == "S" else (-256, 254)
                    if not lo <= dist <= hi:
                        raise RefError("branch-out-of-bounds", f"distance {dist}")
                    if dist % 2:
                        raise RefError("odd-branch", f"distance {dist}")
                    exp.append(("B", target & M16))
            seg.insn = (st.name, exp)
        elif k == "data":
            bits = {".byte": 8, ".word": 16, ".dword": 32}[st.d]
            if bits > 8 and seg.addr % 2:
                raise RefError("odd-address", st.d)
            vals = [fit(ev(e, env), bits, st.d) for e in st.exprs] or [0]
            if bits == 32:
                seg.bytes = b"".join((v >> 16).to_bytes(2, "little") + (v & M16).to_bytes(2, "little") for v in vals)
            else:
                seg.bytes = b"".join(v.to_bytes(bits // 8, "little") for v in vals)
        elif k == "wordlist":
            if seg.addr % 2:
                raise RefError("odd-address", "word list")
            seg.bytes = b"".join(fit(ev(e, env), 16, "word").to_bytes(2, "little") for e in st.exprs)
        elif k == "str":
            if st.d == ".rad50":
                codes = []
                for kind, v in st.chunks:
                    if kind == "n":
                        c = ev(v, env)
                        if c < 0 or c >= 40:
                            raise RefError("value-out-of-bounds", "rad50 code")
                        codes.append(c)
                    else:
                        for ch in v:
                            if ch.upper() not in RAD50:
                                raise RefError("invalid-character", ch)
                            codes.append(RAD50.index(ch.upper()))
                while len(codes) % 3:
                    codes.append(0)
                seg.bytes = b"".join(((codes[i] * 40 + codes[i + 1]) * 40 + codes[i + 2]).to_bytes(2, "little")
                                     for i in range(0, len(codes), 3))
            else:
                out = bytearray()
                for kind, v in st.chunks:
                    if kind == "n":
                        c = ev(v, env)
                        if c < 0 or c >= 256:
                            raise RefError("value-out-of-bounds", "byte chunk")
                        out.append(c)
                    else:
                        out += encode_ref(v, self.prog.charset)
                if st.d == ".asciz":
                    out.append(0)
                seg.bytes = bytes(out)
        elif k == "insert":
            seg.bytes = self.prog.blobs[st.path]
        else:
            seg.bytes = bytes(seg.size)

    # -- conveniences ------------------------------------------------------------------------------------------------
    def symbol_table(self):
        """{(file name, symbol name): value} for every ordinary symbol (labels and constants)."""
        fname = {}
        def walk_units(u):
            fname[u["fid"]] = u["file"].name
            for it in u["items"]:
                if it[0] == "include":
                    walk_units(it[1])
        for u in self.units:
            walk_units(u)
        tab = {}
        for (fid, n), d in self.private.items():
            tab[(fname[fid], d.name)] = self.value_of(d)
        return tab

    def symbol_table_multi(self):
        """{(file name, symbol name): sorted list of values}: one value per compilation of the file (a file that is included twice
        defines its symbols twice, at its two places)."""
        fname = {}
        def walk_units(u):
            fname[u["fid"]] = u["file"].name
            for it in u["items"]:
                if it[0] == "include":
                    walk_units(it[1])
        for u in self.units:
            walk_units(u)
        tab = {}
        for (fid, n), d in self.private.items():
            tab.setdefault((fname[fid], d.name), []).append(self.value_of(d))
        return {k: sorted(v) for k, v in tab.items()}


def check_insn(seg_insn, addr, chunk):
    """Compare the real bytes of one instruction statement with the abstract instruction through the independent
    decoder.  Returns None if it agrees, else a message."""
    name, exp = seg_insn
    if len(chunk) % 2 or not chunk:
        return f"instruction chunk has length {len(chunk)}"
    words = [int.from_bytes(chunk[i:i + 2], "little") for i in range(0, len(chunk), 2)]
    explicit_pc = [e for e in exp if e[0] == "G" and e[1] in (2, 3) and e[2] == 7 and e[3] is None]
    op, ops, n = pdp11_ref.decode(words + [0] * len(explicit_pc), addr)
    if explicit_pc:
        # '(pc)+' / '@(pc)+' written out: the operand word is whatever follows in memory, not part of the statement
        ops = [(o[0], o[1], o[2], None) if (o[0] == "G" and o[1] in (2, 3) and o[2] == 7 and o[3] == 0) else o for o in ops]
        exp = [(e[0], e[1], e[2], None) if (e[0] == "G" and e[1] in (2, 3) and e[2] == 7 and e[3] == 0) else e for e in exp]
        n -= len(explicit_pc)
    if n != len(words):
        return f"decoder consumes {n} words, statement emitted {len(words)}: {[oct(w) for w in words]} decodes as {op} {ops}"
    _canon, kinds, _fixed = pdp11_ref.MNEMONICS[name]
    want = []
    for e, kind in zip(exp, kinds):
        if e[0] == "REG":
            want.append(("G", 0, e[1], None) if kind in "GF" else ("R", e[1]))
        elif e[0] == "ACC":
            want.append(("G", 0, e[1], None) if kind == "F" else ("A", e[1]))
        else:
            want.append(e)
    want_op, want_ops = pdp11_ref.expected(name, want)
    if op != want_op:
        return f"'{name}' decodes as {op} {ops} (words {[oct(w) for w in words]}), expected {want_op} {want_ops}"
    if ops != want_ops:
        return f"'{name}' operands decode as {ops} (words {[oct(w) for w in words]}), expected {want_ops}"
    return None


# ------------------------------------------------------------------------------------------------------------------
# JSON (de)serialisation, so that replay files carry the abstract program and not only its text

def _tup(x):
    return tuple(_tup(i) for i in x) if isinstance(x, (list, tuple)) else x


def st_to_json(st):
    d = {"k": st.k, "labels": [list(l) for l in st.labels]}
    for key, val in st.__dict__.items():
        if key in ("k", "labels"):
            continue
        if key == "body":
            d[key] = [st_to_json(b) for b in val]
        else:
            d[key] = val
    return d


def st_from_json(d):
    st = St(d["k"])
    st.labels = [tuple(l) for l in d.get("labels", [])]
    for key, val in d.items():
        if key in ("k", "labels"):
            continue
        if key == "body":
            st.body = [st_from_json(b) for b in val]
        elif key in ("ops", "exprs", "chunks"):
            setattr(st, key, [_tup(v) for v in val])
        elif key in ("expr", "count"):
            setattr(st, key, _tup(val))
        else:
            setattr(st, key, val)
    return st


def to_json(prog):
    return {"files": [{"name": f.name, "stmts": [st_to_json(s) for s in f.stmts]} for f in prog.files],
            "aux": {p: {"name": f.name, "stmts": [st_to_json(s) for s in f.stmts]} for p, f in prog.aux.items()},
            "blobs": {p: b.hex() for p, b in prog.blobs.items()}, "charset": prog.charset}


def from_json(obj):
    def sf(d):
        return SrcFile(d["name"], [st_from_json(s) for s in d["stmts"]])
    return Program([sf(f) for f in obj["files"]], {p: sf(f) for p, f in obj.get("aux", {}).items()},
                   {p: bytes.fromhex(b) for p, b in obj.get("blobs", {}).items()}, obj.get("charset", "bk"))
