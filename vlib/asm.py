"""Worker-side observation of one assembly at the API boundary.

assemble() runs the real parser + Compiler under the repository's own
handle_reports() extension point with a recording handler, classifies the
outcome, reads the H1 statement trace, and checks the module-level state at
the quiescent point after the run.
"""
import contextlib
import io
import os
import signal
import sys
import traceback

import pdpy11
from pdpy11 import bk_encoding  # noqa: F401  pylint: disable=unused-import  (registers the codec)
from pdpy11 import deferred as _deferred
from pdpy11 import parser as _parser
from pdpy11 import reports as _reports
from pdpy11.compiler import Compiler

PKG_DIR = os.path.dirname(os.path.abspath(pdpy11.__file__)) + os.sep


class LogicalBudgetExceeded(BaseException):
    pass


class WallClockStall(BaseException):
    pass


# ---------------------------------------------------------------------------------------------
# logical clock (sys.monitoring): counts function starts and backward jumps inside pdpy11/
# raises exactly once, never at the start of an __enter__/__exit__ frame (see DESIGN 2.3)

MEM_GUARD_PAGES = 400_000      # about 1.6 GB of growth during ONE assembly


def _rss_pages():
    try:
        with open("/proc/self/statm", encoding="ascii") as f:
            return int(f.read().split()[1])
    except (OSError, ValueError, IndexError):
        return 0


class Clock:
    TOOL = 4  # a free tool id (0..5); 2 = profiler, 1 = coverage, 0 = debugger

    def __init__(self):
        self.count = 0
        self.budget = None
        self.fired = False
        self.installed = False
        self.abort_stack = []
        self.mem_limit = None
        self.mem_fired = False

    def install(self):
        if self.installed:
            return
        mon = sys.monitoring
        mon.use_tool_id(self.TOOL, "verif-clock")
        mon.register_callback(self.TOOL, mon.events.PY_START, self._start)
        mon.register_callback(self.TOOL, mon.events.JUMP, self._jump)
        self.installed = True

    def _start(self, code, _offset):
        if not code.co_filename.startswith(PKG_DIR):
            return sys.monitoring.DISABLE
        self.count += 1
        if (self.count & 0x3FFFF) == 0 and self.mem_limit and not self.fired and _rss_pages() > self.mem_limit:
            # an assembly that keeps allocating without end is stopped like one that keeps running without end
            self.mem_fired = True
            self.budget = 0
        if self.budget is not None and self.count > self.budget and not self.fired:
            if code.co_name in ("__enter__", "__exit__"):
                return None
            self.fired = True
            self.abort_stack = []
            fr = sys._getframe(1)  # pylint: disable=protected-access
            while fr is not None and len(self.abort_stack) < 60:
                if fr.f_code.co_filename.startswith(PKG_DIR):
                    self.abort_stack.append(f"{os.path.basename(fr.f_code.co_filename)}:{fr.f_code.co_name}")
                fr = fr.f_back
            raise LogicalBudgetExceeded(self.count)
        return None

    def _jump(self, code, _offset, _dest):
        if not code.co_filename.startswith(PKG_DIR):
            return sys.monitoring.DISABLE
        self.count += 1
        if (self.count & 0x3FFFF) == 0 and self.mem_limit and not self.fired and _rss_pages() > self.mem_limit:
            # an assembly that keeps allocating without end is stopped like one that keeps running without end
            self.mem_fired = True
            self.budget = 0
        if self.budget is not None and self.count > self.budget and not self.fired:
            if code.co_name in ("__enter__", "__exit__"):
                return None
            self.fired = True
            self.abort_stack = []
            fr = sys._getframe(1)  # pylint: disable=protected-access
            while fr is not None and len(self.abort_stack) < 60:
                if fr.f_code.co_filename.startswith(PKG_DIR):
                    self.abort_stack.append(f"{os.path.basename(fr.f_code.co_filename)}:{fr.f_code.co_name}")
                fr = fr.f_back
            raise LogicalBudgetExceeded(self.count)
        return None

    @contextlib.contextmanager
    def running(self, budget):
        self.install()
        mon = sys.monitoring
        self.count = 0
        self.budget = budget
        self.fired = False
        self.mem_fired = False
        self.mem_limit = _rss_pages() + MEM_GUARD_PAGES
        mon.set_events(self.TOOL, mon.events.PY_START | mon.events.JUMP)
        try:
            yield self
        finally:
            mon.set_events(self.TOOL, 0)
            self.budget = None


CLOCK = Clock()


WATCHDOG = {"fired": False}


@contextlib.contextmanager
def wall_watchdog(seconds):
    """Generous wall-clock guard for one case; firing is 'stall' (inconclusive), never a verdict."""
    def handler(_sig, _frm):
        WATCHDOG["fired"] = True
        raise WallClockStall()
    old = signal.signal(signal.SIGALRM, handler)
    signal.setitimer(signal.ITIMER_REAL, seconds)
    try:
        yield
    finally:
        signal.setitimer(signal.ITIMER_REAL, 0)
        signal.signal(signal.SIGALRM, old)


# ---------------------------------------------------------------------------------------------

def severity_of(priority):
    if priority is _reports.warning:
        return "warning"
    if priority is _reports.critical:
        return "critical"
    if priority is _reports.error:
        return "error"
    return "unknown"


class Recorder:
    """Diagnostic recorder: plain callable, the repository's own extension point."""

    def __init__(self):
        self.events = []

    def __call__(self, priority, identifier, *spans):
        out = []
        for span in spans:
            start, end, text = span
            out.append({
                "file": getattr(start, "filename", None), "file_end": getattr(end, "filename", None),
                "start": getattr(start, "pos", None), "end": getattr(end, "pos", None),
                "len": len(getattr(start, "code", "")), "rs": repr(start), "re": repr(end),
                "text": text,
            })
        self.events.append({"sev": severity_of(priority), "id": identifier, "spans": out})


def module_state():
    """Module-level mutable state that must be at rest between two assemblies."""
    leaks = []
    if _deferred.try_compute.depth != 0:
        leaks.append(f"try_compute.depth={_deferred.try_compute.depth}")
    if _deferred.Awaiting.awaiting_stack:
        leaks.append(f"awaiting_stack={len(_deferred.Awaiting.awaiting_stack)}")
    if _reports.handle_reports.handlers_stack:
        leaks.append(f"handlers_stack={len(_reports.handle_reports.handlers_stack)}")
    return leaks


def reset_module_state():
    _deferred.try_compute.depth = 0
    # depth is read through the instance; class attribute stays 0, instance attribute may shadow it
    if "depth" in vars(_deferred.try_compute):
        _deferred.try_compute.depth = 0
    del _deferred.Awaiting.awaiting_stack[:]
    del _reports.handle_reports.handlers_stack[:]


class Outcome:
    __slots__ = ("cls", "base", "code", "events", "exc", "exc_type", "exc_where", "trace", "compiler",
                 "leaks", "steps", "files_ast", "emitted")

    def __init__(self):
        self.cls = None          # ok | fail | internal | nonterm | stall
        self.base = None
        self.code = None
        self.events = []
        self.exc = None
        self.exc_type = None
        self.exc_where = None
        self.trace = []
        self.compiler = None
        self.leaks = []
        self.steps = None
        self.files_ast = None
        self.emitted = None

    @property
    def errors(self):
        return [e for e in self.events if e["sev"] in ("error", "critical")]

    @property
    def warnings(self):
        return [e for e in self.events if e["sev"] == "warning"]

    def ids(self, sev=None):
        return [e["id"] for e in self.events if sev is None or e["sev"] == sev or (sev == "error" and e["sev"] == "critical")]

    def brief(self):
        d = {"cls": self.cls}
        if self.cls == "ok":
            d["base"] = self.base
            d["code"] = self.code.hex()
        if self.exc_type:
            d["exc"] = f"{self.exc_type} @ {self.exc_where}: {self.exc}"
        d["diag"] = [(e["sev"], e["id"]) for e in self.events]
        return d


def _innermost_pkg_frame(tb):
    where = None
    for fs in traceback.extract_tb(tb):
        if fs.filename.startswith(PKG_DIR):
            where = f"{os.path.basename(fs.filename)}:{fs.name}"
    return where


def assemble(files, charset="bk", budget=None, wall=60.0, handler=None, reset=True, quiet=True):
    """files: list of (filename, text).  Returns an Outcome."""
    out = Outcome()
    rec = Recorder() if handler is None else handler
    stack = contextlib.ExitStack()
    sink = io.StringIO()
    with stack:
        if quiet:
            stack.enter_context(contextlib.redirect_stdout(sink))
            stack.enter_context(contextlib.redirect_stderr(sink))
        WATCHDOG["fired"] = False
        stack.enter_context(wall_watchdog(wall))
        clock = stack.enter_context(CLOCK.running(budget)) if budget is not None else None
        comp = None
        try:
            try:
                with _reports.handle_reports(rec):
                    asts = [_parser.parse(name, text) for name, text in files]
                    out.files_ast = asts
                    comp = Compiler(output_charset=charset)
                    out.compiler = comp
                    base, code = comp.compile_and_link_files(asts)
                out.cls, out.base, out.code = "ok", base, bytes(code)
            except _reports.UnrecoverableError:
                out.cls = "fail"
            except LogicalBudgetExceeded as ex:
                out.cls = "nonterm"
                out.exc = str(ex)
                out.exc_where = ",".join(CLOCK.abort_stack[:40])
            except WallClockStall:
                out.cls = "stall"
            except RecursionError as ex:
                out.cls, out.exc_type, out.exc = "internal", "RecursionError", str(ex)[:200]
                out.exc_where = "?"
                try:
                    # where the recursion goes round: the most frequent frame of the traceback
                    seen = {}
                    tb = ex.__traceback__
                    while tb is not None:
                        key = f"{os.path.basename(tb.tb_frame.f_code.co_filename)}:{tb.tb_frame.f_code.co_name}"
                        seen[key] = seen.get(key, 0) + 1
                        tb = tb.tb_next
                    if seen:
                        out.exc_where = "recursion in " + max(seen, key=seen.get)
                except Exception:  # pylint: disable=broad-except
                    pass
            except Exception as ex:  # pylint: disable=broad-except
                out.cls = "internal"
                out.exc_type = type(ex).__name__
                out.exc = str(ex)[:300]
                out.exc_where = _innermost_pkg_frame(ex.__traceback__)
        finally:
            if clock is not None:
                out.steps = clock.count
    if WATCHDOG["fired"]:
        # the asynchronous watchdog exception can surface as anything while unwinding: never a verdict
        out.cls, out.exc_type, out.exc = "stall", None, None
    if isinstance(rec, Recorder):
        out.events = rec.events
    if comp is not None:
        out.trace = getattr(comp, "verif_trace", [])
        out.emitted = list(comp.emitted_files)
    out.leaks = module_state()
    if reset and out.leaks:
        reset_module_state()
    return out


def span_problems(ev, sources):
    """Universal half of C17 for one diagnostic event; sources: {filename: text}."""
    probs = []
    for sp in ev["spans"]:
        if sp["file"] != sp["file_end"]:
            probs.append(f"span ends in another file: {sp['file']} vs {sp['file_end']}")
            continue
        if sp["file"] not in sources:
            probs.append(f"span names a file that is not a source: {sp['file']}")
            continue
        n = len(sources[sp["file"]])
        if not (0 <= sp["start"] <= n and 0 <= sp["end"] <= n):
            probs.append(f"span offsets outside the file: {sp['start']}..{sp['end']} of {n}")
        if sp["start"] > sp["end"]:
            probs.append(f"span start after end: {sp['start']} > {sp['end']}")
    return probs
