"""Driver side of the runtime-monitoring framework (never imports pdpy11).

A check module (checks/Cxx.py) provides

    PROPERTY, LEVEL, RULE, ASSUMPTIONS
    plan(tier, seed)      -> list of JSON-able shard specs
    run_shard(spec)       -> result dict           (executed in a worker process, pdpy11 importable)
    run_case(case)        -> list of violations    (worker side; used by --replay)
    finish(agg, tier)     -> dict merged into coverage (optional)

A shard result is a dict with the keys
    evaluations : int
    distinct    : list[str]   keys of distinct non-trivial cases (hashed by the driver)
    counters    : dict[str,int]   summed over shards
    sets        : dict[str,list]  unioned over shards
    samples     : list            a few literal cases
    violations  : list[dict]      each {"what":..., "case":..., "known_key": optional mechanism key}
    inconclusive: list[str]
"""
import concurrent.futures
import hashlib
import json
import os
import shutil
import subprocess
import sys
import tempfile
import time

VERIF = os.path.dirname(os.path.dirname(os.path.abspath(__file__)))
PY = "/venv/bin/python"
REPO = os.environ.get("VERIF_REPO", "/repo")
NPROC = int(os.environ.get("VERIF_JOBS", "16"))
OUT = os.environ.get("VERIF_OUT", VERIF)  # where evidence/ and replays/ go (selftests redirect it)


def tree_identity():
    def git(*a):
        try:
            return subprocess.run(["git", "-C", REPO, *a], capture_output=True, timeout=30).stdout
        except Exception:  # pylint: disable=broad-except
            return b"?"
    head = git("rev-parse", "HEAD").decode().strip()
    diff = git("diff", "HEAD", "--", "pdpy11")
    return {"repo": REPO, "head": head, "diff_sha": hashlib.sha256(diff).hexdigest()[:16], "dirty": bool(diff.strip())}


def load_known():
    """known_findings.txt -> {property: {key: text}} for 'open:' lines only."""
    known = {}
    path = os.path.join(VERIF, "known_findings.txt")
    if os.path.exists(path):
        for line in open(path, encoding="utf-8"):
            line = line.strip()
            if not line.startswith("open:"):
                continue
            fields = line[5:].split()
            prop = key = None
            for f in fields:
                if f.startswith("property="):
                    prop = f[9:]
                elif f.startswith("key="):
                    key = f[4:]
            if prop and key:
                text = line[5:].strip()
                if text.startswith(f"property={prop} "):
                    text = text[len(f"property={prop} "):]
                known.setdefault(prop, {})[key] = text
    return known


def worker_env(hashseed="0"):
    env = dict(os.environ)
    env["PYTHONPATH"] = REPO + os.pathsep + VERIF
    env["PYTHONDONTWRITEBYTECODE"] = "1"
    env["PYTHONHASHSEED"] = str(hashseed)
    env["PDPY11_VERIF"] = "1"
    env["VERIF_REPO"] = REPO
    env.pop("PYTHONSTARTUP", None)
    return env


def run_worker(check, mode, payload, scratch, timeout, idx, hashseed="0"):
    """Run one shard in a fresh interpreter.  Returns (status, result|text)."""
    spec_path = os.path.join(scratch, f"spec{idx}.json")
    out_path = os.path.join(scratch, f"out{idx}.json")
    with open(spec_path, "w", encoding="utf-8") as f:
        json.dump(payload, f)
    cmd = [PY, "-B", os.path.join(VERIF, "vlib", "worker.py"), check, mode, spec_path, out_path]
    try:
        proc = subprocess.run(cmd, env=worker_env(hashseed), capture_output=True, timeout=timeout, cwd=scratch)
    except subprocess.TimeoutExpired as ex:
        return "stall", f"wall-clock watchdog ({timeout}s) on shard {idx}: {(ex.stderr or b'')[-2000:].decode('utf-8', 'replace')}"
    if proc.returncode != 0 or not os.path.exists(out_path):
        return "died", f"worker exit {proc.returncode}: {proc.stderr[-3000:].decode('utf-8', 'replace')}"
    with open(out_path, encoding="utf-8") as f:
        res = json.load(f)
    os.unlink(out_path)
    os.unlink(spec_path)
    return "ok", res


def main(mod, argv):
    import argparse
    ap = argparse.ArgumentParser()
    ap.add_argument("--tier", default=os.environ.get("VERIF_TIER", "quick"), choices=["quick", "thorough"])
    ap.add_argument("--seed", type=int, default=int(os.environ.get("VERIF_SEED", "0")))
    ap.add_argument("--replay")
    ap.add_argument("--keep-going", action="store_true")
    args = ap.parse_args(argv)
    prop = mod.PROPERTY
    check = mod.__name__.rsplit(".", 1)[-1]
    t0 = time.time()
    scratch = tempfile.mkdtemp(prefix=f"pdpy11-verif-{prop}-")
    try:
        if args.replay:
            return replay(mod, check, prop, args.replay, scratch)
        return run(mod, check, prop, args, scratch, t0)
    finally:
        shutil.rmtree(scratch, ignore_errors=True)


def replay(mod, check, prop, path, scratch):
    with open(path, encoding="utf-8") as f:
        rep = json.load(f)
    status, res = run_worker(check, "case", rep["case"], scratch, 600, 0, rep.get("hashseed", "0"))
    if status != "ok":
        print(f"INCONCLUSIVE property={prop} reason={status}: {res}")
        return 2
    known = load_known().get(prop, {})
    new = [v for v in res["violations"] if not (v.get("known_key") and v["known_key"] in known)]
    for v in res["violations"]:
        if v not in new:
            print(f"KNOWN-FINDING: property={prop} {known[v['known_key']]}")
    if new:
        for v in new:
            print("replayed:", v["what"])
        print(f"VIOLATION property={prop} replay={path}")
        return 1
    print(f"replay of {path}: no violation on this tree")
    return 0


def run(mod, check, prop, args, scratch, t0):
    known = load_known().get(prop, {})
    specs = mod.plan(args.tier, args.seed)
    timeout = getattr(mod, "SHARD_TIMEOUT", {"quick": 600, "thorough": 3600})[args.tier]
    agg = {"evaluations": 0, "distinct": set(), "counters": {}, "sets": {}, "samples": [], "violations": [], "inconclusive": []}

    def job(i_spec):
        i, spec = i_spec
        status, res = run_worker(check, "shard", spec, scratch, timeout, i, spec.get("hashseed", "0") if isinstance(spec, dict) else "0")
        return i, spec, status, res

    with concurrent.futures.ThreadPoolExecutor(NPROC) as pool:
        for i, spec, status, res in pool.map(job, enumerate(specs)):
            if status != "ok":
                agg["inconclusive"].append(f"shard {i} {status}: {res}")
                continue
            agg["evaluations"] += res.get("evaluations", 0)
            for k in res.get("distinct", []):
                agg["distinct"].add(k if len(k) <= 40 else hashlib.sha1(k.encode()).hexdigest())
            for k, v in res.get("counters", {}).items():
                agg["counters"][k] = agg["counters"].get(k, 0) + v
            for k, v in res.get("sets", {}).items():
                agg["sets"].setdefault(k, set()).update(v)
            if len(agg["samples"]) < 12:
                agg["samples"].extend(res.get("samples", [])[:max(1, 12 // max(1, len(specs)))])
            for v in res.get("violations", []):
                v.setdefault("hashseed", spec.get("hashseed", "0") if isinstance(spec, dict) else "0")
                agg["violations"].append(v)
            agg["inconclusive"].extend(res.get("inconclusive", []))

    extra = {}
    if hasattr(mod, "finish"):
        extra = mod.finish(agg, args.tier) or {}
        # finish() may add violations / inconclusive entries to agg

    # classify violations
    new, seen_known = [], {}
    for v in agg["violations"]:
        key = v.get("known_key")
        if key and key in known:
            seen_known.setdefault(key, v)
        else:
            new.append(v)

    rep_dir = os.path.join(OUT, "replays", prop)
    replay_paths = []
    total_new = len(new)
    if new:
        os.makedirs(rep_dir, exist_ok=True)
        # group by the message with numbers and quoted literals stripped; one replay per group, at most 25 groups
        import re
        groups = {}
        for v in new:
            g = re.sub(r"'[^']*'|\"[^\"]*\"|0x[0-9a-fA-F]+|\d+", "#", v["what"])[:100]
            groups.setdefault(g, []).append(v)
        new = []
        for g, vs in sorted(groups.items(), key=lambda kv: -len(kv[1]))[:25]:
            vs[0]["what"] = f"[{len(vs)}x] " + vs[0]["what"]
            new.append(vs[0])
        for n, v in enumerate(new):
            path = os.path.join(rep_dir, f"{args.tier}-seed{args.seed}-{n}.json")
            with open(path, "w", encoding="utf-8") as f:
                json.dump({"property": prop, "what": v["what"], "case": v["case"], "hashseed": v.get("hashseed", "0"),
                           "known_key": v.get("known_key"), "tree": tree_identity()}, f, indent=1, ensure_ascii=False)
            replay_paths.append(path)

    distinct_n = len(agg["distinct"])
    min_distinct = getattr(mod, "MIN_DISTINCT", 2)
    deciding = getattr(mod, "DECIDING_COUNTERS", [])
    for c in deciding:
        if agg["counters"].get(c, 0) == 0:
            agg["inconclusive"].append(f"deciding monitor counter '{c}' is 0: the monitor never observed anything")
    if distinct_n < min_distinct:
        agg["inconclusive"].append(f"only {distinct_n} distinct non-trivial cases observed (< {min_distinct})")

    coverage = {
        "evaluations": agg["evaluations"],
        "distinct_nontrivial": distinct_n,
        "rule": mod.RULE,
        "samples": agg["samples"][:12],
        "counters": dict(sorted(agg["counters"].items())),
        "sets": {k: sorted(v, key=str)[:400] for k, v in sorted(agg["sets"].items())},
        "set_sizes": {k: len(v) for k, v in sorted(agg["sets"].items())},
        "shards": len(specs),
        "tree": tree_identity(),
        "known_findings_observed": sorted(seen_known),
        "inconclusive": agg["inconclusive"][:20],
    }
    coverage.update(extra)
    evidence = {
        "property_id": prop, "tier": args.tier, "seed": args.seed, "level": mod.LEVEL,
        "coverage": coverage, "assumptions": list(getattr(mod, "ASSUMPTIONS", [])),
        "wall_s": round(time.time() - t0, 2), "violations": total_new,
    }
    os.makedirs(os.path.join(OUT, "evidence"), exist_ok=True)
    with open(os.path.join(OUT, "evidence", f"{prop}.json"), "w", encoding="utf-8") as f:
        json.dump(evidence, f, indent=1, ensure_ascii=False, default=str)

    print(f"{prop} tier={args.tier} seed={args.seed}: {agg['evaluations']} evaluations, {distinct_n} distinct non-trivial, "
          f"{total_new} violations, {len(seen_known)} known findings observed, {len(agg['inconclusive'])} inconclusive notes, "
          f"{evidence['wall_s']}s")
    for k, v in sorted(agg["counters"].items()):
        print(f"  counter {k} = {v}")
    for k, v in sorted(agg["sets"].items()):
        print(f"  set {k}: {len(v)} distinct")
    for key, v in sorted(seen_known.items()):
        print(f"KNOWN-FINDING: property={prop} {known[key]}")
    if new:
        for v, path in zip(new, replay_paths):
            print(f"  violation: {v['what'][:600]}")
            print(f"VIOLATION property={prop} replay={path}")
        return 1
    if agg["inconclusive"]:
        for m in agg["inconclusive"][:3]:
            print(f"INCONCLUSIVE property={prop} reason={m[:600]}")
        if len(agg["inconclusive"]) > 3:
            print(f"  ... and {len(agg['inconclusive']) - 3} more inconclusive notes (see the evidence file)")
        return 2
    return 0
