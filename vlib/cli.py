"""CLI boundary observation (worker side).

run_cli() executes the real pdpy11._cli.main_cli with the argv under test in a forked child of the worker
(pdpy11 is imported but nothing has been assembled in the parent, so the child is a fresh assembler process)
with a scratch cwd, after installing
  (a) a sys.addaudithook monitor recording every open() with a writing mode,
  (b) a wrapper around reports.emit_report appending (severity, identifier, first position) to an event log,
and takes a directory snapshot (path -> size, sha256, mtime_ns) before and after.
run_cli_plain() runs `python -m pdpy11` as an ordinary subprocess without any shim; used on a sample to show
that the shim does not alter status, files or output.
"""
import hashlib
import json
import os
import signal
import subprocess
import sys
import time

PY = "/venv/bin/python"


def snapshot(root):
    snap = {}
    for dirpath, dirnames, filenames in os.walk(root):
        dirnames.sort()
        for fn in sorted(filenames):
            p = os.path.join(dirpath, fn)
            try:
                st = os.stat(p)
                with open(p, "rb") as f:
                    h = hashlib.sha256(f.read()).hexdigest()
                snap[os.path.relpath(p, root)] = [st.st_size, h, st.st_mtime_ns]
            except OSError as ex:
                snap[os.path.relpath(p, root)] = ["unreadable", str(ex), 0]
        for dn in dirnames:
            snap[os.path.relpath(os.path.join(dirpath, dn), root) + "/"] = ["dir", "", 0]
    return snap


def snapshot_diff(before, after):
    created = sorted(k for k in after if k not in before)
    deleted = sorted(k for k in before if k not in after)
    modified = sorted(k for k in after if k in before and after[k][:2] != before[k][:2])
    touched = sorted(k for k in after if k in before and after[k][:2] == before[k][:2] and after[k][2] != before[k][2])
    return {"created": created, "deleted": deleted, "modified": modified, "touched": touched}


def _child(argv, cwd, stdin_data, log_path, out_path, err_path):
    # runs in the forked child; never returns
    status = 70
    try:
        signal.setitimer(signal.ITIMER_REAL, 0)
        signal.signal(signal.SIGALRM, signal.SIG_DFL)
        os.chdir(cwd)
        fo = os.open(out_path, os.O_WRONLY | os.O_CREAT | os.O_TRUNC, 0o644)
        fe = os.open(err_path, os.O_WRONLY | os.O_CREAT | os.O_TRUNC, 0o644)
        r, w = os.pipe()
        if stdin_data is not None:
            os.write(w, stdin_data[:60000])
        os.close(w)
        os.dup2(r, 0)
        os.dup2(fo, 1)
        os.dup2(fe, 2)
        sys.stdin = open(0, "r", encoding="utf-8", closefd=False)  # pylint: disable=consider-using-with
        sys.stdout = open(1, "w", encoding="utf-8", closefd=False)  # pylint: disable=consider-using-with
        # like the interpreter's own stderr, which escapes what it cannot encode (stdout is strict)
        sys.stderr = open(2, "w", encoding="utf-8", errors="backslashreplace", closefd=False)  # pylint: disable=consider-using-with
        log = {"events": [], "opens": [], "exit": None, "exc": None}
        from pdpy11 import reports, _cli
        real_emit = reports.emit_report

        def emit(priority, identifier, *spans):
            sev = "warning" if priority is reports.warning else ("critical" if priority is reports.critical else "error")
            first = spans[0][0] if spans else None
            log["events"].append([sev, identifier, getattr(first, "filename", None), getattr(first, "pos", None), repr(first)])
            return real_emit(priority, identifier, *spans)
        reports.emit_report = emit

        armed = [True]

        def audit(event, args):
            if not armed[0] or event != "open":
                return
            path, mode, flags = args[0], args[1], args[2]
            writing = False
            if isinstance(mode, str) and any(c in mode for c in "wax+"):
                writing = True
            if isinstance(flags, int) and flags & (os.O_WRONLY | os.O_RDWR | os.O_CREAT | os.O_TRUNC | os.O_APPEND):
                writing = True
            if writing:
                log["opens"].append([os.fspath(path) if not isinstance(path, int) else f"fd{path}", str(mode)])
        sys.addaudithook(audit)
        sys.argv = ["pdpy11"] + list(argv)
        try:
            _cli.main_cli()
            status = 0
        except SystemExit as ex:
            status = ex.code if isinstance(ex.code, int) else (0 if ex.code is None else 1)
        except BaseException as ex:  # pylint: disable=broad-except
            status = 71
            log["exc"] = f"{type(ex).__name__}: {ex}"
        armed[0] = False
        log["exit"] = status
        try:
            sys.stdout.flush()
            sys.stderr.flush()
        except Exception:  # pylint: disable=broad-except
            pass
        with open(log_path, "w", encoding="utf-8") as f:
            json.dump(log, f)
    finally:
        os._exit(status & 0xFF)  # pylint: disable=protected-access


def run_cli(argv, cwd, scratch, stdin_data=None, timeout=60.0, tag="c"):
    """Returns dict(exit, events, opens, stdout, stderr, before, after, diff, stall)."""
    log_path = os.path.join(scratch, f"{tag}.log.json")
    out_path = os.path.join(scratch, f"{tag}.stdout")
    err_path = os.path.join(scratch, f"{tag}.stderr")
    for p in (log_path, out_path, err_path):
        if os.path.exists(p):
            os.unlink(p)
    before = snapshot(cwd)
    sys.stdout.flush()
    sys.stderr.flush()
    pid = os.fork()
    if pid == 0:
        _child(argv, cwd, stdin_data, log_path, out_path, err_path)
    deadline = time.time() + timeout
    stall = False
    status = None
    while True:
        wpid, st = os.waitpid(pid, os.WNOHANG)
        if wpid == pid:
            status = os.waitstatus_to_exitcode(st)
            break
        if time.time() > deadline:
            os.kill(pid, signal.SIGKILL)
            os.waitpid(pid, 0)
            stall = True
            break
        time.sleep(0.002)
    after = snapshot(cwd)
    res = {"exit": status, "events": [], "opens": [], "exc": None, "stall": stall, "before": before, "after": after,
           "diff": snapshot_diff(before, after)}
    if os.path.exists(log_path):
        with open(log_path, encoding="utf-8") as f:
            log = json.load(f)
        res["events"], res["opens"], res["exc"] = log["events"], log["opens"], log["exc"]
        res["logged_exit"] = log["exit"]
    else:
        res["logged_exit"] = None
    for key, p in (("stdout", out_path), ("stderr", err_path)):
        try:
            with open(p, "rb") as f:
                res[key] = f.read()
        except OSError:
            res[key] = b""
    res["internal_error"] = b"unexpected internal compiler error" in res["stderr"]
    return res


def run_cli_plain(argv, cwd, stdin_data=None, timeout=120.0, repo=None, hashseed="0"):
    env = dict(os.environ)
    env["PYTHONPATH"] = repo or os.environ.get("VERIF_REPO", "/repo")
    env["PYTHONDONTWRITEBYTECODE"] = "1"
    env["PYTHONHASHSEED"] = hashseed
    env.pop("PDPY11_VERIF", None)
    before = snapshot(cwd)
    try:
        p = subprocess.run([PY, "-B", "-m", "pdpy11"] + list(argv), cwd=cwd, env=env, input=stdin_data or b"",
                           capture_output=True, timeout=timeout)
    except subprocess.TimeoutExpired:
        return {"stall": True, "exit": None, "stdout": b"", "stderr": b"", "diff": {}, "after": snapshot(cwd), "before": before}
    after = snapshot(cwd)
    return {"stall": False, "exit": p.returncode, "stdout": p.stdout, "stderr": p.stderr, "before": before, "after": after,
            "diff": snapshot_diff(before, after), "internal_error": b"unexpected internal compiler error" in p.stderr}
