"""Generators over grammar G (DESIGN 2.5): loose random programs, token/character mutators, corpus splicing.

'Loose' means syntactically plausible but not necessarily meaningful (undefined symbols, wild values): the input space of
C08/C18.  Tight generators with a reference meaning live in the checks that need them.
"""
import glob
import os
import random
import re

from . import apm, pdp11_ref

NAMES = ["lab", "loop", "buf", "cnt", "val", "tab", "msg", "ptr", "tmp", "x1", "y2", "k_3", "v$4", "a.b", "foo", "bar", "zed", "q", "nn", "data1"]
LOCALS = ["1$", "2$", "10$", "3", "12", "77$"]
METANAMES = [".byte", ".word", ".dword", ".ascii", ".asciz", ".rad50", ".blkb", ".blkw", ".even", ".odd", ".align", ".repeat", ".error",
             ".list", ".nlist", ".title", ".sbttl", ".ident", ".page", "insert_file", "make_bin", "make_raw", "make_wav", "make_turbo_wav",
             "make_bk0010_rom", ".link", ".include", ".extern", ".end", ".once", ".db", ".dw"]
assert len(METANAMES) == 32


def rand_num(rnd):
    v = rnd.choice([0, 1, 2, 3, 7, 8, 10, 0o77, 0o100, 0o377, 0o400, 0o1000, 0o77777, 0o100000, 0o177777, 0o200000, 1 << 20, 1 << 32,
                    rnd.randrange(0, 256), rnd.randrange(0, 0x10000), rnd.randrange(0, 1 << 33)])
    if rnd.random() < 0.15:
        v = -v
    return apm.num(v, rnd.choice([None, None, None, "d", "x", "0o", "b", "^X", "^O", "^B", "^D"]))


def rand_expr(rnd, depth=3, names=NAMES, loose=True):
    r = rnd.random()
    if depth <= 0 or r < 0.35:
        r2 = rnd.random()
        if r2 < 0.45:
            return rand_num(rnd)
        if r2 < 0.75:
            return ("sym", rnd.choice(names))
        if r2 < 0.82:
            return ("dot",)
        if r2 < 0.88:
            return ("loc", rnd.choice(LOCALS))
        if r2 < 0.94:
            return ("chr", rnd.choice(["a", "Z", " ", "0", "ab", "xy", "~", "я", "\n"]))
        return ("r50", rnd.choice(["A", "AB", "ABC", "X9$", "Z.%"]))
    if r < 0.5:
        return ("un", rnd.choice(apm.UNARY), rand_expr(rnd, depth - 1, names))
    if r < 0.92:
        op = rnd.choice(apm.INFIX)
        if op in ("<<", ">>", "_"):
            # shift counts stay small: astronomically large integers are a resource question, not the grammar's
            cnt = apm.num(rnd.choice([0, 1, 2, 3, 8, 15, 16, 17, 31, 40, -1, -3]), rnd.choice([None, "d"]))
            return ("bin", op, rand_expr(rnd, depth - 1, names), cnt if rnd.random() < 0.9 else ("sym", rnd.choice(names)))
        return ("bin", op, rand_expr(rnd, depth - 1, names), rand_expr(rnd, depth - 1, names))
    return ("grp", rand_expr(rnd, depth - 1, names))


def rand_general(rnd, fp=False, names=NAMES):
    k = rnd.random()
    if k < 0.25:
        if fp and rnd.random() < 0.7:
            return ("acc", rnd.randrange(6))
        return ("reg", rnd.randrange(8))
    if k < 0.5:
        return ("mode", rnd.randrange(1, 6), rnd.randrange(8))
    if k < 0.65:
        return (rnd.choice(["idx", "idxd"]), rand_expr(rnd, 2, names), rnd.randrange(8))
    return (rnd.choice(["imm", "abs", "rel", "reld"]), rand_expr(rnd, 2, names))


def rand_insn(rnd, names=NAMES):
    name = rnd.choice(sorted(pdp11_ref.MNEMONICS))
    _op, kinds, _f = pdp11_ref.MNEMONICS[name]
    ops = []
    for kind in kinds:
        if kind == "G":
            ops.append(rand_general(rnd, names=names))
        elif kind == "F":
            ops.append(rand_general(rnd, fp=True, names=names))
        elif kind == "R":
            ops.append(("reg", rnd.randrange(8)))
        elif kind == "A":
            ops.append(("acc", rnd.randrange(4)))
        elif kind.startswith("N"):
            ops.append(("inl", rand_expr(rnd, 1, names)))
        else:
            t = rnd.random()
            if t < 0.4:
                ops.append(("br", ("sym", rnd.choice(names))))
            elif t < 0.6:
                ops.append(("br", ("loc", rnd.choice(LOCALS))))
            elif t < 0.8:
                ops.append(("br", ("bin", rnd.choice("+-"), ("dot",), apm.num(2 * rnd.randrange(0, 100), "d"))))
            else:
                ops.append(("br", rand_expr(rnd, 2, names)))
    # sometimes the wrong number of operands
    if rnd.random() < 0.05:
        if ops and rnd.random() < 0.5:
            ops.pop()
        else:
            ops.append(rand_general(rnd, names=names))
    return apm.insn(name, *ops)


STRINGS = ["hello", "", "a", "Hello, World!", "tab\there", "quote'inside", "ПРИВЕТ", "привет мир", "€uro", "x" * 40, "semi;colon", "back\\slash",
           "new\nline", "<angle>", "0123456789", "\x01\x7f"]


def rand_stmt(rnd, depth=0, names=NAMES, files=(), allow_ctl=True):
    r = rnd.random()
    st = None
    if r < 0.38:
        st = rand_insn(rnd, names)
    elif r < 0.50:
        d = rnd.choice([".byte", ".word", ".dword", ".byte", ".word"])
        st = apm.data(d, *[rand_expr(rnd, 2, names) for _ in range(rnd.randrange(0, 5))])
    elif r < 0.56:
        chunks = []
        for _ in range(rnd.randrange(1, 4)):
            if rnd.random() < 0.3:
                chunks.append(("n", rand_expr(rnd, 1, names)))
            else:
                chunks.append(("s", rnd.choice(STRINGS)))
        st = apm.string(rnd.choice([".ascii", ".asciz", ".rad50"]), chunks)
        if st.d == ".rad50" and rnd.random() < 0.5:
            # codes and characters at the edges of the alphabet, in every position of a triple
            chunks = []
            for _ in range(rnd.randrange(1, 5)):
                if rnd.random() < 0.5:
                    chunks.append(("n", apm.num(rnd.choice([0, 1, 38, 39, 40, 41, 47, 63, 64, 255, -1]), rnd.choice([None, "d"]))))
                else:
                    chunks.append(("s", rnd.choice(["9", "99", "999", "Z9", "%", "$.%", " ", "A", "az", "ABCD"])))
            st = apm.string(".rad50", chunks)
        st.quote = rnd.choice("\"'/")
    elif r < 0.62:
        st = apm.blk(rnd.choice([".blkb", ".blkw", ".align"]), rand_expr(rnd, 2, names))
        if rnd.random() < 0.02:
            # fills that bring the image to the edge of, or past, what the address space and the container headers can describe
            st = apm.blk(rnd.choice([".blkb", ".blkb", ".blkw"]), apm.num(rnd.choice([0o177776, 0o177777, 0o177770, 0o100000, 65535, 65536, 0o77777]), rnd.choice([None, "d"])))
    elif r < 0.66:
        st = apm.simple(rnd.choice([".even", ".odd"]))
    elif r < 0.74:
        st = apm.assign(rnd.choice(names), rand_expr(rnd, 3, names), extern=rnd.random() < 0.2)
    elif r < 0.77:
        st = apm.dotassign(rand_expr(rnd, 2, names))
    elif r < 0.81:
        st = apm.wordlist(*[rand_expr(rnd, 2, names) for _ in range(rnd.randrange(1, 4))])
    elif r < 0.86 and depth < 3:
        body = [rand_stmt(rnd, depth + 1, names, files, allow_ctl=False) for _ in range(rnd.randrange(0, 4))]
        st = apm.repeat(rnd.choice([("sym", rnd.choice(names)), ("bin", "+", ("sym", rnd.choice(names)), apm.num(1)), apm.num(40), apm.num(-1)])
                        if rnd.random() < 0.3 else apm.num(rnd.randrange(0, 6)), body)
    elif r < 0.90 and allow_ctl:
        st = rnd.choice([
            apm.link(rand_expr(rnd, 2, names)),
            apm.simple(".end"), apm.simple(".once"),
            apm.extern(*[rnd.choice(names + ["all"]) for _ in range(rnd.randrange(1, 3))]),
            apm.simple(rnd.choice(["make_bin", "make_raw", "make_wav", "make_turbo_wav", "make_bk0010_rom"]),
                       *([f'"{rnd.choice(["out.bin", "o/x.wav", "name", ""])}"' + rnd.choice(["", "", ', "NAME"', ", <40000000000>", ', "a" <300> <1114112.>'])]
                         if rnd.random() < 0.6 else [])),
            apm.simple(rnd.choice(["make_raw", "make_bin", "make_wav", "insert_file", ".include"]),
                       rnd.choice(['"a" <0> "b"', '"a" <0xd800>', '"zz" <0xdc00> ".mac"', '"o/" <377> <1> ".bin"', '"x.wav", "N" <0xdfff>', '"\\x00"', '<0>'])),
            apm.simple(rnd.choice([".list", ".nlist", ".page", ".title some text", ".sbttl sub title", ".ident /v1/", ".error oops", ".error",
                                   ".ident <40000000000>", ".ident <-1>", ".title <1114112.> /x/", ".error <4294967296.>", ".ident <nosuch>", ".ident"])),
        ])
    elif r < 0.94 and files and allow_ctl:
        st = rnd.choice([apm.include(rnd.choice(files)), apm.insert_file(rnd.choice(files + ("blob.bin",)))])
    else:
        st = apm.St("nop")
    if rnd.random() < 0.25 and depth == 0:
        nm = rnd.choice(names + LOCALS)
        st.labels.append((nm, "local" if nm[0].isdigit() else rnd.choice(["label", "label", "extern"])))
    return st


def rand_program_text(rnd, nstmt=None, files=(), strength=0.3):
    n = nstmt if nstmt is not None else rnd.randrange(1, 40)
    style = apm.Style.random(rnd, strength) if rnd.random() < 0.6 else apm.PLAIN
    lines = []
    for _ in range(n):
        try:
            lines.extend(apm.r_stmt(rand_stmt(rnd, files=files), style))
        except (ValueError, IndexError, KeyError):
            continue
    # directive names without their dot, and a code block after a statement that takes none (or one more than it takes)
    tweak = rnd.random() < 0.35
    for i, line in enumerate(lines):
        if not tweak:
            break
        if rnd.random() < 0.04:
            lines[i] = line = re.sub(r"^(\s*(?:[a-z0-9_$.]+::?\s*)?)\.([a-z])", r"\1\2", line, flags=re.I)
        if rnd.random() < 0.04 and ";" not in line and line.strip():
            lines[i] = line + rnd.choice([" { nop }", " { .word 1 }", " {}", " {\n\tnop\n}", " { clr r0 } { nop }", " {"])
    # define most of the names somewhere, so that many inputs get past symbol resolution into layout and encoding
    if rnd.random() < 0.7:
        for nm in NAMES:
            if rnd.random() < 0.75:
                d = f"{nm} = {rnd.choice([0, 1, 2, 5, 0o100, 0o1000, 0o177777])}" if rnd.random() < 0.5 else f"{nm}: .word {rnd.randrange(8)}"
                lines.insert(rnd.randrange(len(lines) + 1), d)
    return "\n".join(lines) + "\n"


# ---------------------------------------------------------------------------------------------------------------------
# mutation

TOKENS = (sorted(pdp11_ref.MNEMONICS) + METANAMES + ["r0", "r1", "r5", "sp", "pc", "%3", "ac0", "ac5", "{", "}", ",", ":", "::", "=", "==", "#", "@",
          "%", "(", ")", "<", ">", "^", "\\", "\"", "'", "/", "+", "-", "*", "<<", ">>", "_", "&", "|", "!", "~", "^C", "^X", "^R", "^D", "^B", "^O", ".",
          "1$", "10$", "8", "9", "19", "0x", "0xFG", "177777", "200000", "1.", "65536.", "-1", "lab", "foo", "all", "\n", "\n", ";", "\t", " ", "@#", "-(", ")+",
          "'a", "\"ab", "'€", "\"字я", "'\U0001f600", "<1>", "^/", ". =", ".=", "\"str\"", "'s'", "/s/"])
CHARS = ["\0", "\t", "\r", "\n", "\x0c", "\x0b", "\x1c", "\x85", "\u2028", "\u2029", " ", "\"", "'", "/", "\\", ";", ":", "=", "{", "}", "(", ")", "<", ">", "^", "#", "@", "%", "$", ".", ",", "+", "-",
         "8", "9", "0", "a", "Z", "_", "é", "я", "€", "字", "\x7f", "​", "﻿", "~", "!", "|", "&", "*",
         "\u212a", "\u0130", "\u0131", "\u017f", "\ufb06", "\xdf", "\u0cee", "\u0661", "\xb2", "\u2167", "\uff21", "\uff11", "\u0301", "\U0001f600", "\U0001d7d8", "\u01c5"]


def tokenise(text):
    out, cur = [], ""
    for ch in text:
        if ch.isalnum() or ch in "_$.":
            cur += ch
        else:
            if cur:
                out.append(cur)
                cur = ""
            out.append(ch)
    if cur:
        out.append(cur)
    return out


def mutate_tokens(rnd, text, n=None):
    toks = tokenise(text)
    for _ in range(n if n is not None else rnd.randrange(1, 5)):
        if not toks:
            toks = [rnd.choice(TOKENS)]
            continue
        i = rnd.randrange(len(toks))
        op = rnd.random()
        if op < 0.3:
            toks.insert(i, rnd.choice(TOKENS))
        elif op < 0.5:
            del toks[i]
        elif op < 0.75:
            toks[i] = rnd.choice(TOKENS)
        elif op < 0.88:
            j = rnd.randrange(len(toks))
            toks[i], toks[j] = toks[j], toks[i]
        else:
            toks.insert(i, toks[i])
    return "".join(toks)


def mutate_chars(rnd, text, n=None):
    s = list(text)
    for _ in range(n if n is not None else rnd.randrange(1, 9)):
        if not s:
            s = [rnd.choice(CHARS)]
            continue
        i = rnd.randrange(len(s))
        op = rnd.random()
        if op < 0.4:
            s.insert(i, rnd.choice(CHARS))
        elif op < 0.65:
            del s[i]
        else:
            s[i] = rnd.choice(CHARS)
    return "".join(s)


_CORPUS = None


def corpus_lines():
    global _CORPUS  # pylint: disable=global-statement
    if _CORPUS is None:
        repo = os.environ.get("VERIF_REPO", "/repo")
        lines = []
        for p in sorted(glob.glob(os.path.join(repo, "tests", "practice", "*", "*.mac"))):
            try:
                with open(p, encoding="utf-8") as f:
                    lines.extend(l.rstrip("\n") for l in f if l.strip())
            except (OSError, UnicodeDecodeError):
                pass
        _CORPUS = lines or ["mov r0, r1"]
    return _CORPUS


def splice_corpus(rnd, n=None):
    lines = corpus_lines()
    k = n if n is not None else rnd.randrange(1, 30)
    out = []
    while len(out) < k:
        i = rnd.randrange(len(lines))
        run = rnd.randrange(1, 6)
        out.extend(lines[i:i + run])
    return "\n".join(out[:k]) + "\n"


def hostile_text(rnd, files=()):
    """One input of grammar G at full width."""
    r = rnd.random()
    if r < 0.3:
        return rand_program_text(rnd, files=files), "gen"
    if r < 0.5:
        return mutate_tokens(rnd, rand_program_text(rnd, files=files)), "gen+tok"
    if r < 0.65:
        return mutate_chars(rnd, rand_program_text(rnd, files=files)), "gen+chr"
    if r < 0.75:
        return splice_corpus(rnd), "corpus"
    if r < 0.88:
        return mutate_tokens(rnd, splice_corpus(rnd)), "corpus+tok"
    return mutate_chars(rnd, splice_corpus(rnd)), "corpus+chr"
