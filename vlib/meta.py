"""Helpers for the metamorphic checks (C03, C09, C10, C16): assemble variants of one program and compare observables."""
import os
import shutil
import tempfile

from . import apm, asm, refcheck
from .findings import definitional_cycle


def assemble_prog(prog, root, style=apm.PLAIN, texts=None, wall=120):
    """Render (unless texts are given), materialise under a fresh subdirectory of root, assemble.  Returns (outcome, texts)."""
    if texts is None:
        texts = refcheck.render_all(prog, style)
    sub = tempfile.mkdtemp(prefix="v-", dir=root)
    try:
        files = refcheck.materialise(prog, texts, sub)
        o = asm.assemble(files, charset=prog.charset, wall=wall)
    finally:
        shutil.rmtree(sub, ignore_errors=True)
    return o, texts


def observable(o):
    """(status class, base, bytes): what 'identical output' means for the metamorphic properties; warnings are ignored."""
    if o.cls == "ok":
        return ("ok", o.base, o.code)
    if o.cls == "fail":
        return ("fail", None, None)
    return (o.cls, o.exc_type, None)


def describe(o):
    if o.cls == "ok":
        return f"ok base {o.base:#o} {len(o.code)} bytes"
    if o.cls == "fail":
        return f"fail {[e['id'] for e in o.errors[:3]]}"
    return f"{o.cls} {o.exc_type} {o.exc}"


def first_diff(a, b):
    n = min(len(a), len(b))
    for i in range(n):
        if a[i] != b[i]:
            return i
    return n if len(a) != len(b) else None


def known_cycle(o, texts):
    return o.cls in ("internal", "nonterm") and o.exc_type in ("DeferredCycle", None) and definitional_cycle(list(texts.values()))
