"""Known-finding predicates shared by the checks (DESIGN appendix D): mechanism keys computed from the input text."""
import re

IDENT = re.compile(r"[A-Za-z_0-9$][A-Za-z_0-9$.]*")


REPEAT = re.compile(r"(?<![a-z0-9_$.])\.?repeat\b")


def fold_repeat_bodies(text):
    """Join the lines of every '.repeat ... { ... }' block, so that the body counts as operand of the size-less directive."""
    out = []
    i = 0
    low = text.lower()
    while True:
        mm = REPEAT.search(low, i)
        j = mm.start() if mm else -1
        if j < 0:
            out.append(text[i:])
            break
        out.append(text[i:j])
        k = text.find("{", j)
        if k < 0:
            out.append(text[j:])
            break
        depth, m, closed = 0, k, False
        while m < len(text):
            ch = text[m]
            if ch == ";":                      # a comment: braces in it do not count
                nl = text.find("\n", m)
                m = len(text) if nl < 0 else nl
                continue
            if ch == "{":
                depth += 1
            elif ch == "}":
                depth -= 1
                if depth == 0:
                    closed = True
                    break
            m += 1
        if not closed:                         # no closing brace: the block runs to the end of the file (the parser takes it so)
            m = len(text) - 1
        out.append(text[j:m + 1].replace("\n", " ").replace(":", " ").replace("=", " "))
        i = m + 1
    return "".join(out)


def definitional_cycle(texts):
    """Tolerant scanner: does the symbol dependency graph of the input have a cycle?
    node per symbol name (case-folded); 'name = expr' -> edges to the identifiers of expr (to the end of the line); a label ->
    edges to the identifiers in the operands of every size-less directive (.blkb .blkw .align .repeat count, '. =' skip, <expr>
    chunks of .ascii-family, .link) that precedes it in link order.  A leading '. = expr' that mentions '.' is a cycle by itself.
    Over-approximates (operands are taken to the end of the line); used only to recognise the listed finding."""
    graph = {}
    sizeless = set()
    base_set = False
    event = re.compile(
        r"(?P<assign>(?P<an>\.|[A-Za-z_$][A-Za-z_0-9$.]*)\s*==?(?!=)(?P<ae>[^\n]*))"
        r"|(?P<label>(?P<ln>[A-Za-z_0-9$.]+)\s*::?)"
        # (a dotted directive name also counts when it is glued to the word before it: 'aslb.ascii <lab>' is 'aslb' + '.ascii <lab>')
        r"|(?P<dir>(?P<dn>\.(?:blkb|blkw|align|repeat|link|ascii|asciz|rad50|even|odd|include)|(?<![A-Za-z0-9_$.])(?:blkb|blkw|align|repeat|link|ascii|asciz|rad50|even|odd|include|insert_file))\b(?P<de>[^\n]*))",
        re.I)
    for text in texts:
        # drop comments and radix / complement prefixes (so that '^Cx1' mentions x1); fold a '.repeat' body into its operand
        text = "\n".join(line if any(q in line.split(";")[0] for q in "\"'/") else line.split(";")[0] for line in text.split("\n"))
        text = fold_repeat_bodies(text)
        # an expression continues on the next line when that line starts with an operator or an opening bracket, or
        # when this one ends with an operator or a comma: join such lines
        text = re.sub(r"\n(?:[ \t]*\n)*(?=[ \t]*[-+*/%&|!^_(<>,])", " ", text)
        text = re.sub(r"(?<=[-+*/%&|!^_,(<])[ \t]*\n(?:[ \t]*\n)*", " ", text)
        # a directive whose operand starts on the next line ('.ascii' + newline + operands)
        text = re.sub(r"(?i)(\.(?:blkb|blkw|align|repeat|link|ascii|asciz|rad50|include)|(?<![A-Za-z0-9_$.])(?:blkb|blkw|align|repeat|link|ascii|asciz|rad50|include|insert_file)|=)[ \t]*\n(?:[ \t]*\n)*", r"\1 ", text)
        text = re.sub(r"\^[CcXxOoBbDdRr]", " ", text)
        pos = 0
        while True:
            m = event.search(text, pos)
            if not m:
                break
            if m.group("assign"):
                name = m.group("an").lower()
                expr = m.group("ae")
                ids = {i.lower() for i in IDENT.findall(expr)}
                mentions_dot = "." in re.sub(r"[A-Za-z_0-9$.]*[A-Za-z_0-9$]|\d+\.", "", expr)
                if name == ".":
                    if not base_set and mentions_dot:
                        return True
                    base_set = True
                    sizeless |= ids
                else:
                    graph.setdefault(name, set()).update(ids)
                    if mentions_dot:
                        graph[name] |= sizeless
                pos = m.start("ae")
            elif m.group("label"):
                graph.setdefault(m.group("ln").lower(), set()).update(sizeless)
                pos = m.end()
            else:
                if m.group("dn").lower().lstrip(".") == "link":
                    base_set = True
                sizeless |= {i.lower() for i in IDENT.findall(m.group("de"))}
                pos = m.start("de")
    color = {}

    def dfs(n):
        color[n] = 1
        for m2 in graph.get(n, ()):
            c = color.get(m2, 0)
            if c == 1:
                return True
            if c == 0 and m2 in graph and dfs(m2):
                return True
        color[n] = 2
        return False
    import sys
    old_limit = sys.getrecursionlimit()
    sys.setrecursionlimit(20000)
    try:
        return any(color.get(n, 0) == 0 and dfs(n) for n in list(graph))
    finally:
        sys.setrecursionlimit(old_limit)     # the assembler under test keeps the interpreter's default limit


