"""Run a function in a forked child of the calling worker and get its JSON-able result back.

Used where the history of the process must not carry over from one case to the next: the worker itself never assembles anything, so
every child starts from the state 'pdpy11 imported, nothing parsed or compiled yet' (module-level caches empty)."""
import json
import os
import signal
import sys
import time


def call(fn, out_path, timeout=600):
    sys.stdout.flush()
    sys.stderr.flush()
    pid = os.fork()
    if pid == 0:
        code = 0
        try:
            res = fn()
            with open(out_path, "w", encoding="utf-8") as f:
                json.dump(res, f)
        except BaseException as ex:  # pylint: disable=broad-except
            try:
                import traceback
                with open(out_path, "w", encoding="utf-8") as f:
                    json.dump({"child_error": f"{type(ex).__name__}: {ex}", "traceback": traceback.format_exc()[-1500:]}, f)
            except Exception:  # pylint: disable=broad-except
                pass
            code = 1
        os._exit(code)  # pylint: disable=protected-access
    deadline = time.time() + timeout
    while True:
        wpid, _st = os.waitpid(pid, os.WNOHANG)
        if wpid == pid:
            break
        if time.time() > deadline:
            os.kill(pid, signal.SIGKILL)
            os.waitpid(pid, 0)
            return {"child_error": "wall-clock watchdog"}
        time.sleep(0.001)
    try:
        with open(out_path, encoding="utf-8") as f:
            return json.load(f)
    except (OSError, ValueError):
        return {"child_error": "no result"}
    finally:
        try:
            os.unlink(out_path)
        except OSError:
            pass
