"""Frozen transcription of the BK-0010 charset bytes 0x7F..0xBF (no independent source in this sandbox: change detector)."""
FROZEN_7F_BF = ("■" + "".join(chr(c) for c in range(0x80, 0xA0))
                + "¶┴♥┐╡├└═╤♠┌┬╨↓┼║┤←╬↑♣─╫│♦┘╪╥╧╞→▓")
assert len(FROZEN_7F_BF) == 0xC0 - 0x7F
FROZEN_CHARS = {ch: 0x7F + i for i, ch in enumerate(FROZEN_7F_BF)}
FROZEN_CHARS["¤"] = 0x24
