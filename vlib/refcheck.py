"""Shared oracle: run a rendered APM program through the real assembler and compare it with the reference semantics."""
import os

from . import apm, asm


def materialise(prog, texts, root):
    """Write aux (included) files and blobs under root; returns list of (abs filename, text) for the linked files.
    texts: {logical file name: rendered text} for linked and aux files."""
    os.makedirs(root, exist_ok=True)
    for path, f in prog.aux.items():
        os.makedirs(os.path.dirname(os.path.join(root, path)), exist_ok=True)
        with open(os.path.join(root, path), "w", encoding="utf-8") as fh:
            fh.write(texts[f.name])
    for path, blob in prog.blobs.items():
        os.makedirs(os.path.dirname(os.path.join(root, path)), exist_ok=True)
        with open(os.path.join(root, path), "wb") as fh:
            fh.write(blob)
    return [(os.path.join(root, f.name), texts[f.name]) for f in prog.files]


def render_all(prog, style=apm.PLAIN):
    texts = {f.name: apm.r_file(f, style) for f in prog.files}
    for f in prog.aux.values():
        texts[f.name] = apm.r_file(f, style)
    return texts


def wait(x):
    from pdpy11.deferred import wait as w
    return w(x)


def compare(prog, o, counters=None, want_trace=True, max_msgs=4):
    """o: asm.Outcome of the rendered program.  Returns (verdict, messages) with verdict in
    'agree', 'violation', 'unmodelled', 'stall'."""
    c = counters if counters is not None else {}

    def bump(k, n=1):
        c[k] = c.get(k, 0) + n

    if o.cls == "stall":
        return "stall", []
    try:
        ref = apm.Ref(prog).run()
    except apm.Unmodelled as ex:
        bump("unmodelled")
        return "unmodelled", [str(ex)]
    except apm.RefError as ex:
        bump("expected_rejections")
        if o.cls == "fail":
            ids = o.ids("error")
            if ex.ident is None or ex.ident in ids:
                bump("rejections_confirmed")
                return "agree", []
            return "violation", [f"rejected, but without the expected '{ex.ident}' error ({ex}); reported: {ids[:5]}"]
        return "violation", [f"the reference rejects this program ({ex}) but the assembler outcome is {o.cls} "
                             f"{o.exc_type or ''} {o.exc or ''}"]
    if o.cls != "ok":
        first = [(e["sev"], e["id"], e["spans"][0]["rs"] if e["spans"] else "") for e in o.errors[:3]]
        return "violation", [f"valid program not assembled: outcome {o.cls} {o.exc_type or ''} {o.exc or ''} {o.exc_where or ''}; first errors {first}"]
    msgs = []
    if o.base != ref.base:
        return "violation", [f"link base {o.base:#o}, reference {ref.base:#o}"]
    if len(o.code) != len(ref.image):
        msgs.append(f"image length {len(o.code)}, reference (sum of statement sizes) {len(ref.image)}")
    for i, seg in enumerate(ref.segs):
        lo = seg.addr - ref.base
        chunk = o.code[lo:lo + seg.size]
        if seg.insn is not None:
            bump("insn_statements_decoded")
            m = apm.check_insn(seg.insn, seg.addr, chunk)
            if m:
                msgs.append(f"'{apm.r_stmt(seg.st)[0].strip()}' at {seg.addr:#o}: {m}")
        else:
            bump("data_statements_compared")
            bump("data_bytes_compared", seg.size)
            if chunk != seg.bytes:
                msgs.append(f"'{apm.r_stmt(seg.st)[0].strip()[:80]}' at {seg.addr:#o}: bytes {chunk.hex()[:64]} expected {seg.bytes.hex()[:64]}")
        if len(msgs) >= max_msgs:
            break
    return ("violation" if msgs else "agree"), msgs


def run_prog_case(prog, root, cnt, wall=120, style=apm.PLAIN):
    """Render, materialise in a fresh subdirectory, assemble, compare with the reference.  Returns (verdict, msgs, outcome, texts)."""
    import shutil
    import tempfile
    texts = render_all(prog, style)
    sub = tempfile.mkdtemp(prefix="r-", dir=root)
    try:
        files = materialise(prog, texts, sub)
        o = asm.assemble(files, charset=prog.charset, wall=wall)
    finally:
        shutil.rmtree(sub, ignore_errors=True)
    c = {}
    verdict, msgs = compare(prog, o, c)
    if verdict == "violation" and known_cycle(o, texts):
        # the listed C08 finding 'definitional-cycle' (e.g. a lazily counted .repeat whose body mentions a later label): this input
        # is outside what the other properties can be judged on; C08 owns it
        verdict, msgs = "unmodelled", ["listed finding definitional-cycle (C08)"]
        c["excluded_known_cycle"] = 1
    for k, v in c.items():
        cnt[k] = cnt.get(k, 0) + v
    return verdict, msgs, o, texts


def known_cycle(o, texts):
    from .findings import definitional_cycle
    return (o.cls == "nonterm" or (o.cls == "internal" and o.exc_type == "DeferredCycle")) and definitional_cycle(list(texts.values()))
