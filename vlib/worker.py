"""Worker entry point: python -B worker.py <check> shard|case <spec.json> <out.json>."""
import faulthandler
import importlib
import json
import os
import sys


def main():
    check, mode, spec_path, out_path = sys.argv[1:5]
    faulthandler.enable()
    try:
        import resource
        # astronomically large allocations fail at once (MemoryError) instead of thrashing the machine
        resource.setrlimit(resource.RLIMIT_AS, (3 << 30, 3 << 30))
    except (ImportError, ValueError, OSError):
        pass
    sys.path.insert(0, os.path.dirname(os.path.dirname(os.path.abspath(__file__))))
    repo = os.environ.get("VERIF_REPO", "/repo")
    import pdpy11
    if not os.path.abspath(pdpy11.__file__).startswith(os.path.abspath(repo) + os.sep):
        print(f"pdpy11 imported from {pdpy11.__file__}, not from {repo}", file=sys.stderr)
        sys.exit(3)
    mod = importlib.import_module("checks." + check)
    with open(spec_path, encoding="utf-8") as f:
        spec = json.load(f)
    if mode == "shard":
        res = mod.run_shard(spec)
    else:
        res = {"violations": mod.run_case(spec)}
    tmp = out_path + ".tmp"
    with open(tmp, "w", encoding="utf-8") as f:
        json.dump(res, f, ensure_ascii=False, default=str)
    os.replace(tmp, out_path)
    sys.stdout.flush()
    sys.stderr.flush()
    os._exit(0)  # pylint: disable=protected-access


if __name__ == "__main__":
    main()
