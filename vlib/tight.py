"""Tight generator: random APM programs inside the fragment whose meaning the reference semantics fixes.

gen_program(rnd, ...) returns an apm.Program for which apm.Ref(prog).run() succeeds (generate-and-filter), together with
feature tags.  Used by the functional and metamorphic checks (C02, C03, C07, C09, C10, C16, C17, C19).
"""
from . import apm

ONE_G = ["clr", "com", "inc", "dec", "neg", "tst", "asr", "asl", "ror", "rol", "swab", "adc", "sbc", "sxt", "clrb", "tstb", "incb", "negb", "jmp"]
TWO_G = ["mov", "cmp", "bit", "bic", "bis", "add", "sub", "movb", "cmpb", "bisb"]
NOARG = ["nop", "halt", "rti", "clc", "sec", "ccc", "ret", "wait", "reset", "cln", "sez"]
BRANCH = ["br", "bne", "beq", "bge", "blt", "bgt", "ble", "bpl", "bmi", "bhi", "blos", "bvc", "bvs", "bcc", "bcs", "bhis", "blo"]


class Ctx:
    def __init__(self, rnd, fileno, opts):
        self.rnd = rnd
        self.fileno = fileno
        self.opts = opts
        self.labels = []        # ordinary labels of this file (names), in order of definition position
        self.consts = {}        # name -> int value (pure constants, usable as sizes)
        self.const_order = []
        self.exports = []       # names exported by this file
        self.maybe_odd = False
        self.defined_so_far = set()
        self.aliases = []
        self.alias_defs = []
        self.own_labels = set()
        self.in_repeat = 0
        self.n = 0

    def fresh(self, prefix):
        self.n += 1
        return f"{prefix}{self.fileno}x{self.n}"


def const_expr(ctx, rnd, want=None):
    """Expression over pure constants with a known value; returns (expr, value)."""
    if ctx.consts and rnd.random() < 0.5:
        name = rnd.choice(list(ctx.consts))
        base, val = ("sym", name), ctx.consts[name]
    else:
        val = rnd.choice([0, 1, 2, 3, 4, 5, 7, 8, 10, 16, 0o77, 0o100, 0o377, rnd.randrange(0, 300)])
        base = apm.num(val, rnd.choice([None, None, "d", "x"]))
    r = rnd.random()
    if r < 0.6:
        return base, val
    k = rnd.randrange(1, 9)
    if r < 0.75:
        return ("bin", "+", base, apm.num(k)), val + k
    if r < 0.85:
        return ("bin", "*", base, apm.num(k)), val * k
    if r < 0.92:
        return ("bin", ">>", base, apm.num(1)), val >> 1
    return ("bin", "&", base, apm.num(0o17)), val & 0o17


def small_count(ctx, rnd, hi=12):
    """(expr, value) with 0 <= value <= hi, possibly through a constant defined anywhere in the file."""
    v = rnd.randrange(0, hi + 1)
    r = rnd.random()
    if r < 0.45:
        return apm.num(v, rnd.choice([None, "d"])), v
    name = ctx.fresh("cnt")
    ctx.consts[name] = v
    ctx.const_order.append(name)
    ctx.pending_defs.append(apm.assign(name, apm.num(v, rnd.choice([None, "d"]))))
    if r < 0.8:
        return ("sym", name), v
    return ("bin", "+", ("sym", name), apm.num(0)), v


def addr_expr(ctx, rnd, labels):
    """Address-valued expression (fits 16 bits for any base <= 0o170000 and small programs)."""
    if not labels:
        return apm.num(rnd.choice([0, 0o1000, 0o177776, 0o100000, rnd.randrange(0x10000)]))
    lab = rnd.choice(labels)
    r = rnd.random()
    own = [l for l in labels if l in ctx.own_labels]
    if ctx.opts.get("aliases", True) and own and not ctx.in_repeat and rnd.random() < 0.2:
        # an alias: a constant whose value is an address (label + k, possibly through a chain), defined anywhere in the file,
        # then used with coefficients other than +1 whose net effect still fits 16 bits
        if ctx.aliases and rnd.random() < 0.6:
            al = rnd.choice(ctx.aliases)
        else:
            al = ctx.fresh("ali")
            target = ("sym", rnd.choice(own)) if not ctx.aliases or rnd.random() < 0.6 else ("sym", rnd.choice(ctx.aliases))
            ctx.aliases.append(al)
            ctx.alias_defs.append(apm.assign(al, ("bin", "+", target, apm.num(rnd.randrange(0, 12)))))
        lab2 = rnd.choice(own)
        form = rnd.random()
        if form < 0.25:
            return ("sym", al)
        if form < 0.45:
            return ("bin", "-", ("bin", "*", apm.num(3), ("sym", al)), ("bin", "*", apm.num(2), ("sym", lab2)))
        if form < 0.65:
            return ("bin", "-", ("sym", lab2), ("sym", al))
        if form < 0.8:
            return ("bin", "+", ("bin", "-", apm.num(10), ("sym", al)), ("bin", "*", apm.num(2), ("sym", lab2)))
        return ("bin", "-", ("sym", al), ("sym", lab2))
    if r < 0.5:
        return ("sym", lab)
    if r < 0.7:
        return ("bin", "+", ("sym", lab), apm.num(rnd.randrange(0, 40), rnd.choice([None, "d"])))
    if r < 0.8:
        return ("bin", "-", ("sym", rnd.choice(labels)), ("sym", lab))       # difference: base-free
    if r < 0.9:
        return ("bin", "+", ("dot",), apm.num(rnd.randrange(0, 30), "d"))
    return ("dot",)


def value_expr(ctx, rnd, labels):
    r = rnd.random()
    if ctx.opts.get("impure_dot", True) and rnd.random() < 0.08:
        # operators whose result is not linear in an address: the value must be computed anew wherever the statement is placed
        who = ("dot",) if rnd.random() < 0.7 or not labels else ("sym", rnd.choice(labels))
        op, k = rnd.choice([("/", 2), ("/", 3), ("%", 8), ("%", 10), (">>", 1), (">>", 3)])
        return ("bin", op, who, apm.num(k, rnd.choice([None, "d"]) if k < 8 else "d"))
    if r < 0.4:
        return apm.num(rnd.choice([0, 1, 2, 0o377, 0o177777, 0o100000, rnd.randrange(0x10000)]), rnd.choice([None, None, "d", "x"]))
    if r < 0.6 and ctx.consts:
        return const_expr(ctx, rnd)[0]
    return addr_expr(ctx, rnd, labels)


def general(ctx, rnd, labels, allow_pc_rel=True):
    r = rnd.random()
    if r < 0.3:
        return ("reg", rnd.randrange(6))
    if r < 0.5:
        return ("mode", rnd.randrange(1, 6), rnd.randrange(6))
    if r < 0.62:
        e = rnd.choice([apm.num(rnd.randrange(0, 100)), apm.num(-2), value_expr(ctx, rnd, labels)])
        return (rnd.choice(["idx", "idx", "idxd"]), e, rnd.randrange(6))
    if r < 0.78:
        return ("imm", value_expr(ctx, rnd, labels))
    if r < 0.86:
        return ("abs", value_expr(ctx, rnd, labels))
    if allow_pc_rel and labels:
        return (rnd.choice(["rel", "rel", "reld"]), addr_expr(ctx, rnd, labels))
    return ("reg", rnd.randrange(6))


def gen_stmt(ctx, rnd, labels, near, depth=0):
    """One emitting statement (list of statements, to allow a leading .even).  near: labels close enough for branches."""
    opts = ctx.opts
    out = []

    def word_aligned():
        if ctx.maybe_odd:
            out.append(apm.simple(".even"))
            ctx.maybe_odd = False

    if depth > 0 and rnd.random() < 0.12:
        # word list (explicit or, when respelled, implicit) in a repeat body, with values that differ from copy to copy
        word_aligned()
        who = rnd.choice([("dot",), ("bin", "+", ("dot",), apm.num(2))])
        op, k = rnd.choice([("/", 2), ("%", 8), (">>", 1), ("+", 1)])
        out.append(rnd.choice([apm.wordlist, lambda *a: apm.data(".word", *a)])(apm.num(rnd.randrange(0x10000)), ("bin", op, who, apm.num(k)), value_expr(ctx, rnd, labels)))
        return out
    r = rnd.random()
    if r < 0.40:
        word_aligned()
        k = rnd.random()
        if k < 0.2:
            out.append(apm.insn(rnd.choice(NOARG)))
        elif k < 0.5:
            out.append(apm.insn(rnd.choice(ONE_G), general(ctx, rnd, labels)))
        elif k < 0.8:
            out.append(apm.insn(rnd.choice(TWO_G), general(ctx, rnd, labels), general(ctx, rnd, labels)))
        elif k < 0.9 and near and depth == 0:
            out.append(apm.insn(rnd.choice(BRANCH), ("br", ("sym", rnd.choice(near)))))
        elif k < 0.95:
            out.append(apm.insn("jsr", ("reg", rnd.choice([5, 7])), general(ctx, rnd, labels)))
        elif rnd.random() < 0.5:
            out.append(apm.insn(rnd.choice(["emt", "trap"]), ("inl", apm.num(rnd.randrange(256)))))
        else:
            # an inline field given by a bare constant that may be defined further down
            nm = ctx.fresh("inl")
            v = rnd.randrange(64)
            ctx.consts[nm] = v
            ctx.const_order.append(nm)
            ctx.pending_defs.append(apm.assign(nm, apm.num(v, rnd.choice([None, "d"]))))
            out.append(apm.insn(rnd.choice(["emt", "trap", "mark"]), ("inl", ("sym", nm))))
    elif r < 0.55:
        d = rnd.choice([".word", ".word", ".byte", ".dword"])
        n = rnd.randrange(1, 5) if rnd.random() < 0.93 else 0
        if d == ".byte":
            out.append(apm.data(d, *[apm.num(rnd.randrange(-255, 256) if rnd.random() < 0.2 else rnd.randrange(256)) for _ in range(n)]))
            ctx.maybe_odd = True
        else:
            word_aligned()
            out.append(apm.data(d, *[value_expr(ctx, rnd, labels) for _ in range(n)]))
    elif r < 0.63:
        chunks = []
        for _ in range(rnd.randrange(1, 4)):
            if rnd.random() < 0.3:
                if rnd.random() < 0.35 and not ctx.in_repeat:
                    # a code given by a constant that may be defined further down: the string cannot be evaluated when it is met,
                    # its size must still be the number of bytes it will have
                    nm = ctx.fresh("chc")
                    v = rnd.randrange(256)
                    ctx.consts[nm] = v
                    ctx.const_order.append(nm)
                    ctx.pending_defs.append(apm.assign(nm, apm.num(v, rnd.choice([None, "d"]))))
                    chunks.append(("n", ("sym", nm)))
                else:
                    chunks.append(("n", apm.num(rnd.randrange(256), rnd.choice([None, "d"]))))
            else:
                chunks.append(("s", rnd.choice(["hello", "A", "text with spaces", "ПРИВЕТ", "", "x;y", "tab\there", "q'uote", "Жук", "я"])))
        st = apm.string(rnd.choice([".ascii", ".asciz"]), chunks)
        out.append(st)
        ctx.maybe_odd = True
    elif r < 0.68:
        chunks = [("s", rnd.choice(["ABC", "HELLO", "A B", "X9$", ""]))]
        if rnd.random() < 0.3:
            chunks.append(("n", apm.num(rnd.randrange(40), "d")))
        word_aligned()
        out.append(apm.string(".rad50", chunks))
    elif r < 0.78:
        e, v = small_count(ctx, rnd)
        d = rnd.choice([".blkb", ".blkb", ".blkw"])
        if d == ".blkw":
            word_aligned()
        out.append(apm.blk(d, e))
        if d == ".blkb":
            ctx.maybe_odd = True
    elif r < 0.84:
        out.append(apm.simple(rnd.choice([".even", ".even", ".odd"])))
        ctx.maybe_odd = out[-1].d == ".odd"
    elif r < 0.88:
        out.append(apm.blk(".align", apm.num(rnd.choice([2, 4, 8, 16, 64] if opts.get("align_pow2") else [1, 2, 4, 8, 16, 3, 5, 64]))))
        ctx.maybe_odd = True
    elif r < 0.92 and opts.get("dotskip") and depth == 0:
        out.append(apm.dotassign(("bin", "+", ("dot",), small_count(ctx, rnd, 20)[0])))
        ctx.maybe_odd = True
    elif r < 0.92 and opts.get("dotskip") and depth > 0:
        # the alignment idiom inside a repeat body: every copy rounds its own '.' up (a forward skip of 1..m bytes)
        m = rnd.choice([2, 4, 8])
        out.append(apm.dotassign(("bin", "+", ("bin", "*", ("bin", "/", ("dot",), apm.num(m)), apm.num(m)), apm.num(m))))
        ctx.maybe_odd = False
    elif r < 0.97 and opts.get("repeat") and depth < 2:
        e, v = small_count(ctx, rnd, 4)
        body = []
        ctx.maybe_odd = True          # a body may start at either parity on later copies: always re-align inside
        ctx.in_repeat += 1            # (aliases may point at labels defined later: not inside bodies, see below)
        for _ in range(rnd.randrange(1, 4)):
            # a lazily counted '.repeat' whose body mentions a label defined after it is the listed finding
            # 'definitional-cycle' (content and size are not separated); bodies only mention labels defined before
            body.extend(gen_stmt(ctx, rnd, [l for l in labels if l in ctx.defined_so_far], [], depth + 1))
        ctx.in_repeat -= 1
        out.append(apm.repeat(e, body))
        ctx.maybe_odd = True
    else:
        word_aligned()
        out.append(apm.wordlist(apm.num(rnd.randrange(0x10000)), value_expr(ctx, rnd, labels)))
    return out


def gen_file(rnd, fileno, name, opts, shared_exports=(), nstmt=None):
    """Returns (SrcFile, ctx).  shared_exports: names exported by other files that may be referenced."""
    ctx = Ctx(rnd, fileno, opts)
    ctx.pending_defs = []
    ctx.defined_so_far = set(shared_exports)
    n = nstmt if nstmt is not None else rnd.randrange(3, 25)
    nlabels = max(1, n // 3)
    label_names = [ctx.fresh("lbl") for _ in range(nlabels)]
    ctx.own_labels = set(label_names)
    # constants, possibly chained, defined at random places (before or after use)
    for _ in range(rnd.randrange(0, 5)):
        e, v = const_expr(ctx, rnd)
        nm = ctx.fresh("cst")
        ctx.consts[nm] = v
        ctx.const_order.append(nm)
        ctx.pending_defs.append(apm.assign(nm, e))
    positions = sorted(rnd.sample(range(n + 1), min(nlabels, n + 1)))
    all_refs = label_names + list(shared_exports)
    stmts = []
    li = 0
    exported = []
    for i in range(n + 1):
        while li < len(positions) and positions[li] == i:
            lab = label_names[li]
            ext = opts.get("exports") and rnd.random() < 0.3
            if ctx.maybe_odd and rnd.random() < 0.7:
                stmts.append(apm.simple(".even"))
                ctx.maybe_odd = False
            stmts.append(apm.label(lab, extern=bool(ext)))
            ctx.defined_so_far.add(lab)
            if ext:
                exported.append(lab)
            li += 1
        if i == n:
            break
        lo = max(0, li - 2)
        near = label_names[lo:li + 1] if opts.get("branches", True) else []
        stmts.extend(gen_stmt(ctx, rnd, all_refs, near))
    # sprinkle the constant definitions anywhere at top level
    for d in ctx.pending_defs:
        stmts.insert(rnd.randrange(len(stmts) + 1), d)
    # alias definitions: anywhere, in any order relative to each other and to the labels they mention (chains in reverse order too)
    for d in (reversed(ctx.alias_defs) if rnd.random() < 0.5 else ctx.alias_defs):
        stmts.insert(rnd.choice([0, rnd.randrange(len(stmts) + 1), len(stmts)]), d)
    if opts.get("titles", True) and rnd.random() < 0.15:
        # literal-text directives (no bytes): the text runs to the end of the line, whatever it looks like
        stmts.insert(rnd.randrange(len(stmts) + 1), apm.simple(rnd.choice([".title", ".sbttl"]),
                                                                rnd.choice(["; starts like a comment", "plain text", "(x) ; y", ";", "/v1/ ; c", "\"quoted\" ; '"])))
    if exported and opts.get("extern_all", True) and rnd.random() < 0.2:
        # the same exports through '.extern all' somewhere in the file (it exports what is defined before AND after it)
        for st in stmts:
            st.labels = [(n, "label" if kind == "extern" else kind) for n, kind in st.labels]
        at = rnd.choice([0, 0, rnd.randrange(len(stmts) + 1), len(stmts)])
        stmts.insert(at, apm.extern("all"))
        if rnd.random() < 0.6:
            # a constant (not a label) that other files may use, defined before or after the directive
            cname = f"xk{fileno}all"
            stmts.insert(rnd.randrange(len(stmts) + 1), apm.assign(cname, apm.num(rnd.choice([0o100, 0o2000, 0o177776, 6]))))
            exported.append(cname)
    elif len(exported) >= 2 and opts.get("extern_list", True) and rnd.random() < 0.25:
        # the same exports through one '.extern a, b, c' (or two such directives) somewhere in the file
        for st in stmts:
            st.labels = [(n, "label" if kind == "extern" else kind) for n, kind in st.labels]
        names = list(exported)
        rnd.shuffle(names)
        k = rnd.randrange(1, len(names)) if rnd.random() < 0.3 else len(names)
        for group in (names[:k], names[k:]):
            if group:
                stmts.insert(rnd.choice([0, rnd.randrange(len(stmts) + 1), len(stmts)]), apm.extern(*group))
    ctx.labels = label_names
    ctx.exports = exported
    return apm.SrcFile(name, stmts), ctx


def gen_program(rnd, nfiles=None, opts=None, base=None, tries=30, charset="bk", nstmt=None):
    """Generate-and-filter: a Program accepted by the reference.  Returns (prog, ref, info)."""
    opts = dict(opts or {})
    opts.setdefault("repeat", True)
    opts.setdefault("dotskip", True)
    opts.setdefault("exports", True)
    for _ in range(tries):
        k = nfiles if nfiles is not None else rnd.choice([1, 1, 1, 2, 3])
        files, aux, blobs = [], {}, {}
        exports = []
        ctxs = []
        for i in range(k):
            f, ctx = gen_file(rnd, i, f"f{i}.mac", opts, shared_exports=tuple(exports), nstmt=nstmt)
            exports.extend(ctx.exports)
            files.append(f)
            ctxs.append(ctx)
        if opts.get("include") and rnd.random() < 0.7:
            sib = opts.get("include_siblings", True) and rnd.random() < 0.35
            inc, ictx = gen_file(rnd, 8, "inc8.mac", dict(opts, exports=bool(sib), include=False, dotskip=False, extern_all=False),
                                 shared_exports=tuple(exports) if rnd.random() < 0.5 else (), nstmt=rnd.randrange(1, 6))
            aux["inc8.mac"] = inc
            hi = rnd.randrange(len(files))
            host = files[hi]
            pos = rnd.randrange(len(host.stmts) + 1)
            inc_st = apm.include("inc8.mac")
            host.stmts[pos:pos] = [apm.simple(".even"), inc_st, apm.simple(".even")]
            if opts.get("late_path", True) and rnd.random() < 0.25:
                # the path spelled with a <n> chunk whose value is a constant defined anywhere in the file (maybe further down): the
                # included code takes its room all the same
                inc_st.spell = 'inc"<pth8q>".mac'
                host.stmts.insert(rnd.randrange(len(host.stmts) + 1), apm.assign("pth8q", apm.num(0o70)))
            if sib:
                # a sibling include (same nesting depth, later in link order) that refers to what the first one exports: branches,
                # relative operands and differences across two included files
                inc9, _c9 = gen_file(rnd, 9, "inc9.mac", dict(opts, exports=False, include=False, dotskip=False, extern_all=False),
                                     shared_exports=tuple(ictx.exports), nstmt=rnd.randrange(2, 7))
                aux["inc9.mac"] = inc9
                hj = rnd.randrange(hi, len(files))
                h2 = files[hj]
                p2 = rnd.randrange(pos + 3, len(h2.stmts) + 1) if hj == hi else rnd.randrange(len(h2.stmts) + 1)
                h2.stmts[p2:p2] = [apm.simple(".even"), apm.include("inc9.mac"), apm.simple(".even")]
            elif opts.get("include_twice", True) and rnd.random() < 0.4:
                # the same file a second time, elsewhere: every inclusion is a compilation of its own
                host = rnd.choice(files)
                pos = rnd.randrange(len(host.stmts) + 1)
                host.stmts[pos:pos] = [apm.simple(".even"), apm.include("inc8.mac"), apm.simple(".even")]
        if opts.get("insert") and rnd.random() < 0.7:
            blob = bytes(rnd.randrange(256) for _ in range(rnd.randrange(0, 301)))
            if rnd.random() < 0.4:
                # byte sequences that text-mode reading, decoding or stripping would damage
                special = rnd.choice([b"\r\n", b"\r\n\r\n", b"\x1a", b"\x00\x00", b"\xff\xfe", b"\n", b" \t ", b"\xef\xbb\xbf"])
                k = rnd.randrange(len(blob) + 1)
                blob = (blob[:k] + special + blob[k:])[:300]
                if rnd.random() < 0.3:
                    blob = special + blob[:200] + special
            blobs["blob9.bin"] = blob
            host = rnd.choice(files)
            pos = rnd.randrange(len(host.stmts) + 1)
            ins_st = apm.insert_file("blob9.bin")
            host.stmts[pos:pos] = [ins_st, apm.simple(".even")]
            if opts.get("late_path", True) and rnd.random() < 0.25:
                # the path spelled with a <n> chunk given by a constant defined anywhere in the file: the bytes take their room all the same
                ins_st.spell = 'blob"<pth9q>".bin'
                host.stmts.insert(rnd.randrange(len(host.stmts) + 1), apm.assign("pth9q", apm.num(0o71)))
        nf = len(files)
        if opts.get("shadow", True) and nf >= 2 and rnd.random() < 0.25 and not any(st.k == "extern" for f in files for st in f.stmts):
            # a name exported by one file (a label, or a constant whose value is final at once) and defined privately, further down,
            # in another file that uses it before: the file's own definition is the one its references mean
            i = rnd.randrange(nf)
            j = rnd.choice([x for x in range(nf) if x != i])
            name = None
            if ctxs[i].exports and rnd.random() < 0.5:
                name = rnd.choice(list(ctxs[i].exports))
            if name is None:
                name = f"shd{i}x"
                files[i].stmts.insert(rnd.randrange(len(files[i].stmts) + 1), apm.assign(name, apm.num(rnd.choice([0o100, 0o144, 0o2000, 7])), extern=True))
            use = rnd.choice([apm.data(".word", ("sym", name)), apm.insn("mov", ("imm", ("sym", name)), ("reg", 1)),
                              apm.insn("mov", ("rel", ("sym", name)), ("reg", 1)), apm.insn("jmp", ("rel", ("sym", name)))])
            files[j].stmts[0:0] = [use]
            if rnd.random() < 0.6:
                files[j].stmts += [apm.simple(".even"), apm.label(name), apm.data(".word", apm.num(rnd.randrange(0x10000)))]
            else:
                files[j].stmts.insert(rnd.randrange(1, len(files[j].stmts) + 1), apm.assign(name, apm.num(rnd.choice([0o300, 0o1234, 5]))))
        b = base if base is not None else rnd.choice([None, 0o1000, 0o2000, 0, 0o40000, 0o100000, 0o157776, 0o1001 if opts.get("odd_base") else 0o1002])
        if b is not None:
            site = rnd.random()
            if site < 0.12 and opts.get("late_base", True):
                # the base named through a constant that is defined somewhere further down in the same file
                files[0].stmts.insert(0, apm.link(("sym", "lkb7q")))
                files[0].stmts.insert(rnd.randrange(1, len(files[0].stmts) + 1), apm.assign("lkb7q", apm.num(b)))
            elif site < 0.6:
                files[0].stmts.insert(0, apm.link(apm.num(b)))
            elif site < 0.8:
                d = apm.dotassign(apm.num(b))
                d.is_base = True
                files[0].stmts.insert(0, d)
                if rnd.random() < 0.4:
                    # statements that emit nothing may stand before the '. =' that sets the base: it is still the leading one
                    files[0].stmts.insert(0, rnd.choice([apm.simple(".list"), apm.simple(".title", "some text"), apm.simple(".page"),
                                                         apm.assign("zq9pre", apm.num(5)), apm.simple(".nlist")]))
            else:
                f = rnd.choice(files)
                f.stmts.insert(rnd.randrange(len(f.stmts) + 1), apm.link(apm.num(b)))
                _strip_dot_skips_before_link(files)
        else:
            _strip_dot_skips(files)
        prog = apm.Program(files, aux, blobs, charset)
        try:
            ref = apm.Ref(prog).run()
        except (apm.RefError, apm.Unmodelled):
            continue
        return prog, ref, {"files": k, "ctxs": ctxs}
    raise RuntimeError("tight generator could not produce a valid program")


def _strip_dot_skips(files):
    for f in files:
        f.stmts[:] = [s for s in f.stmts if s.k != "dot"]
        for s in f.stmts:
            if s.k == "repeat":
                s.body[:] = [b for b in s.body if b.k != "dot"]


def _strip_dot_skips_before_link(files):
    seen = False
    for f in files:
        keep = []
        for s in f.stmts:
            if s.k == "link":
                seen = True
            if s.k == "dot" and not seen:
                continue
            keep.append(s)
        f.stmts[:] = keep
