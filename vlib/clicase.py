"""Host programs with planted faults, laid out on disk for CLI / API runs (C07, C17, C19)."""
import os
import random

from . import apm, faults, refcheck, tight


def build_host(rnd, nfiles=None, include=None, base=None, nstmt=None):
    """A valid program (accepted by the reference) rendered one statement per line, '.link B' first.
    Returns dict(prog, ref, texts {name: [lines]}, linked [names], included [names])."""
    include = rnd.random() < 0.4 if include is None else include
    for _ in range(20):
        prog, ref, info = tight.gen_program(rnd, nfiles=nfiles, opts={"include": include, "include_twice": False, "extern_all": False, "insert": False, "dotskip": False, "align_pow2": True}, base=0o1000, nstmt=nstmt)
        # normalise the base site: exactly one '.link B' as the first statement of the first file
        for f in prog.files:
            f.stmts = [s for s in f.stmts if s.k != "link" and not (s.k == "dot")]
        b = base if base is not None else rnd.choice([0o1000, 0o2000, 0o40000, 0])
        prog.files[0].stmts.insert(0, apm.link(apm.num(b)))
        try:
            ref = apm.Ref(prog).run()
        except (apm.RefError, apm.Unmodelled):
            continue
        texts = {}
        for f in list(prog.files) + list(prog.aux.values()):
            texts[f.name] = apm.r_file(f).rstrip("\n").split("\n")
        return {"prog": prog, "ref": ref, "texts": texts, "linked": [f.name for f in prog.files], "included": [f.name for f in prog.aux.values()]}
    raise RuntimeError("no host program")


def top_level_slots(lines):
    """Line indices (insert-before positions) that are outside '{ }' blocks, after the first line."""
    slots = []
    depth = 0
    for i, l in enumerate(lines):
        code = l.split(";")[0]
        depth += code.count("{") - code.count("}")
        # right after a top-level '.even' the address is even whatever comes before: planting there cannot disturb the host's layout
        if depth == 0 and code.strip().lower() == ".even":
            slots.append(i + 1)
    if not slots:
        lines.append(".even")
        slots.append(len(lines))
    return slots


DECOR = ["\t; page break \x0c and vertical tab \x0b in a comment", "; line separator \u2028 next-line \x85 paragraph \u2029 in a comment", "\t; record separators \x1c\x1d\x1e",
         "\t; комментарий перед ошибкой", "; comment with \"quotes\" and 'c and {", "\t\t; tabs\tinside\tcomment", "", "   ",
         # characters whose lower-case, upper-case or case-folded form has another length (one position is one character of the SOURCE)
         "; Straße, İstanbul, ﬁn ﬂ ﬀ ﬆ, ǅ ŉ ǰ ΐ", "\t; ß\tİ\tﬃ", "; combining marks: e\u0301 и\u0306 and a non-BMP sign \U0001d11e"]


def plant(host, rnd, fault, where=None, decorate=True):
    """Insert a rendered fault into one of the host's files.  Returns dict(file, line (1-based of fault's first line), fault)."""
    names = host["linked"] + host["included"]
    if where is None:
        where = rnd.choice(names)
    lines = host["texts"][where]
    slot = rnd.choice(top_level_slots(lines))
    pre = []
    if decorate and rnd.random() < 0.6:
        pre = [rnd.choice(DECOR)]
    block = pre + fault["lines"] + ["\t.even"]
    lines[slot:slot] = block
    # earlier plantings in the same file that lie after this slot move down
    for p in host.setdefault("planted", []):
        if p["file"] == where and p["line"] - 1 >= slot:
            p["line"] += len(block)
    rec = {"file": where, "line": slot + len(pre) + 1, "fault": fault}
    host["planted"].append(rec)
    return rec


def write_host(host, root, final_newline=True):
    """Write all files under root; returns the list of linked file paths (relative to root).
    final_newline: True/False, or a set of file names that are written WITHOUT a newline after their last line."""
    os.makedirs(root, exist_ok=True)
    for name, lines in host["texts"].items():
        nl = final_newline if isinstance(final_newline, bool) else (name not in final_newline)
        os.makedirs(os.path.dirname(os.path.join(root, name)), exist_ok=True)
        with open(os.path.join(root, name), "w", encoding="utf-8") as f:
            f.write("\n".join(lines) + ("\n" if nl else ""))
    return list(host["linked"])


def append_last(host, lines, where):
    """Append statements at the very end of a file (after a re-aligning .even), e.g. a warning on the file's last line."""
    host["texts"][where].extend(["\t.even"] + list(lines))


def expected_positions(rec):
    """Acceptable (line, column) pairs (1-based, tab = 4 columns) of the first reported position for a planted fault."""
    f = rec["fault"]
    if not f["accept"]:
        return None if f["accept"] is None else set()
    out = set()
    for a in f["accept"]:
        key = a.split("+")[0].split("-")[0]
        delta = int(a.split("+")[1]) if "+" in a else (-int(a.split("-")[1]) if "-" in a else 0)
        lo, col = f[key]
        line_text = f["lines"][lo]
        out.add((rec["line"] + lo, faults.column_of(line_text, col + delta)))
    return out


def line_col(text, pos, tab=4):
    """Independent recomputation of the printed position from a character offset."""
    line_no = text.count("\n", 0, pos)
    start = text.rfind("\n", 0, pos) + 1
    col = (pos - start) + text[start:pos].count("\t") * (tab - 1)
    return line_no + 1, col + 1
