"""Fault catalogue (DESIGN appendix B): each kind is a small statement (or a few lines) that is wrong in exactly one way.

A fault is rendered as lines to be inserted into an otherwise valid program.  For each kind the catalogue records
  ident   - the diagnostic identifier that must be reported
  sev     - 'error' | 'critical' | 'warning'
  T       - (line offset, column) of the planted token          (0-based, in characters; tabs are expanded by the checker)
  S       - (line offset, column) of the statement / mnemonic that contains it
  accept  - which of 'T', 'S' are acceptable first positions; None = file/line sanity only
Every kind needs nothing from the surrounding program except that the names it mentions are unused there.
"""

# kind -> (template lines, ident, sev, T-marker, accept)
# In a template, '{I}' is the indentation of the statement, '«' marks the start of the statement's mnemonic (S) and '»' the start of
# the planted token (T); both markers are removed when rendering.
CATALOGUE = [
    ("undefined-symbol", ["{I}«mov #»nosuchsym, r0"], "undefined-symbol", "error", ("T",)),
    ("undefined-in-word", ["{I}«.word 5, »nosuchsym2"], "undefined-symbol", "error", ("T",)),
    ("extern-undefined-used", [".extern undx9q", "{I}«.word »undx9q"], "undefined-symbol", "error", ("T",)),
    ("extern-undefined-used-imm", ["{I}«mov #»undx8q, r0", ".extern undx8q"], "undefined-symbol", "error", ("T",)),
    ("make-late-undefined", ["{I}«make_raw \"o7\" <»nosuch8q> \".x\""], "undefined-symbol", "error", ("T",)),
    ("ident-late-undefined", ["{I}«.ident \"a\" <»nosuch9q>"], "undefined-symbol", "error", ("T",)),
    ("tape-name-late-undefined", ["{I}«make_wav \"o8.wav\", \"N\" <»nosuch7q>"], "undefined-symbol", "error", ("T",)),
    ("unused-undefined", ["«unusd1 = »nosuchsym5 + 1"], "undefined-symbol", "error", ("T",)),
    ("unused-div-zero", ["«unusd2 = 100 / zer0", "zer0 = 0"], "arithmetic-error", "error", None),
    ("bad-octal", ["{I}«.word »19"], "invalid-number", "error", ("T",)),
    # the same faults inside '.repeat' bodies (every copy of the body is compiled from a copy of its tokens)
    ("bad-octal-in-repeat", ["{I}«.repeat 2 { .word »18 }"], "invalid-number", "error", ("T",)),
    ("bad-octal-in-repeat-block", ["{I}«.repeat 3 {", "\t\tmov #»9, r1", "{I}}"], "invalid-number", "error", ("T",)),
    ("undefined-in-repeat", ["{I}«.repeat 2 { mov #»nosuchsym7, r0 }"], "undefined-symbol", "error", ("T",)),
    ("byte-out-of-range-in-repeat", ["{I}«.repeat 2 {", "{I}\t.byte 1, »400", "{I}}"], "value-out-of-bounds", "error", ("T",)),
    # DEL is a byte of every ASCII-compatible charset except 'bk' (0x7f is a pseudo-graphic there)
    ("del-in-ascii", ["{I}«.ascii \"AB\x7fCD\""], "invalid-character", "error", ("S",)),
    ("del-char-literal", ["{I}«.word »'\x7f"], "invalid-character", "error", ("T",)),
    ("del-in-tape-name", ["{I}«make_wav \"t7.wav\", \"GAME\x7f\""], "invalid-character", "error", ("S",)),
    ("bad-octal-in-expr", ["{I}«mov #2 + »98, r1"], "invalid-number", "error", ("T",)),
    ("caret-x-without-digits", ["{I}«.word »^X"], "invalid-number", "critical", ("T",)),
    ("divide-by-zero", ["{I}«.word »5 / 0"], "arithmetic-error", "error", ("T",)),
    ("modulo-by-zero", ["{I}«.word »7 % 0"], "arithmetic-error", "error", ("T",)),
    # the offending sub-expression starts with a bracket (or is call-like) and is not the first term: blanks, tabs before it
    ("divide-by-zero-bracketed", ["{I}«.word 1 + \t»(2) / 0"], "arithmetic-error", "error", ("T",)),
    ("modulo-by-zero-angle", ["{I}«.word 1 +  »<2> % 0"], "arithmetic-error", "error", ("T",)),
    ("call-like-value", ["{I}«.word 3 + »nofn9(4)"], "undefined-symbol", "error", ("T",)),
    ("negative-shift", ["{I}«.word »1 << ngsh", "ngsh = 0 - 3"], "arithmetic-error", "error", ("T",)),
    ("branch-too-far", ["{I}«br . + 1000"], "branch-out-of-bounds", "error", ("S",)),
    ("sob-forward", ["{I}«sob r1, . + 4"], "branch-out-of-bounds", "error", ("S",)),
    # the first displacement that does not fit: 128 words forward of the following word
    ("branch-one-word-too-far", ["{I}«bne . + 402"], "branch-out-of-bounds", "error", ("S",)),
    ("branch-one-word-too-far-decimal", ["{I}«br . + 258."], "branch-out-of-bounds", "error", ("S",)),
    ("odd-branch", ["{I}«br . + 3"], "odd-branch", "error", ("S",)),
    ("byte-out-of-range", ["{I}«.byte 1, »400"], "value-out-of-bounds", "error", ("T",)),
    ("word-out-of-range", ["{I}«.word »200000"], "value-out-of-bounds", "error", ("T",)),
    ("dword-out-of-range", ["{I}«.dword »40000000000"], "value-out-of-bounds", "error", ("T",)),
    ("immediate-out-of-range", ["{I}«mov »#200000, r0"], "value-out-of-bounds", "error", ("T", "T+1")),
    ("word-too-small", ["{I}«.word 5, »-70000."], "value-out-of-bounds", "error", ("T", "T+1")),
    ("byte-too-small", ["{I}«.byte 1, »-400"], "value-out-of-bounds", "error", ("T", "T+1")),
    ("dword-too-small", ["{I}«.dword 1, »-40000000000"], "value-out-of-bounds", "error", ("T", "T+1")),
    ("word-too-small-bracketed", ["{I}«.word 5, »<-70000.>"], "value-out-of-bounds", "error", ("T",)),
    ("immediate-too-small", ["{I}«mov #»-200000., r0"], "value-out-of-bounds", "error", ("T", "T+1")),
    ("immediate-too-small-symbol", ["tsm7 = -200000.", "{I}«mov #»tsm7, r0"], "value-out-of-bounds", "error", ("T",)),
    ("index-too-small", ["{I}«mov »-70000.(r1), r0"], "value-out-of-bounds", "error", ("T", "T+1")),
    ("emt-out-of-range", ["{I}«emt 400"], "value-out-of-bounds", "error", ("S",)),
    ("spl-out-of-range", ["{I}«spl 10"], "value-out-of-bounds", "error", ("S",)),
    ("mark-out-of-range", ["{I}«mark 100"], "value-out-of-bounds", "error", ("S",)),
    ("negative-count", ["{I}«.blkb »ngcnt", "ngcnt = 0 - 1"], "value-out-of-bounds", "error", ("T",)),
    ("ascii-byte-out-of-range", ["{I}«.ascii \"ab\" »<400>"], "value-out-of-bounds", "error", ("T", "T+1")),
    ("rad50-code-out-of-range", ["{I}«.rad50 \"A\" »<50>"], "value-out-of-bounds", "error", ("T",)),
    ("operand-count-few", ["{I}«mov r0"], "wrong-operands", "error", ("S",)),
    ("operand-count-many", ["{I}«clr r0, r1"], "wrong-operands", "error", ("S",)),
    ("directive-operands", ["{I}«.even 1"], "wrong-meta-operands", "error", ("S",)),
    ("repeat-without-block", ["{I}«.repeat 2"], "wrong-meta-operands", "error", ("S",)),
    ("unknown-mnemonic", ["{I}«frobnicate r0"], "unknown-insn", "error", ("S",)),
    ("register-expected", ["{I}«jsr »5, nosuchjsr", "nosuchjsr = 1000"], "invalid-addressing", "error", ("S", "T")),
    ("accumulator-expected", ["{I}«ldf (r0), »r1"], "invalid-addressing", "error", ("S", "T")),
    ("ac6", ["{I}«clrf »r6"], "implicit-accumulator", "error", ("T",)),
    ("register-as-value", ["{I}«.word »r0"], "unexpected-register", "error", ("T",)),
    ("postfix-as-value", ["{I}«.word »5+"], "unexpected-value", "error", ("T", "T+1")),
    ("at-inside-immediate", ["{I}«mov #»@5, r0"], "unexpected-value", "error", ("T",)),
    ("percent-inside-immediate", ["{I}«mov #»%1, r1"], "unexpected-value", "error", ("T",)),
    ("hash-inside-deferred-word", ["{I}«.word @»#5"], "unexpected-value", "error", ("T", "T-1")),
    ("hash-after-minus", ["{I}«.word - »#5"], "unexpected-value", "error", ("T",)),
    ("hash-as-value", ["{I}«.word 1 + »#2"], None, "critical", None),
    ("duplicate-label", ["duplab:", "{I}nop", "{I}«»duplab: nop"], "duplicate-symbol", "error", ("T",)),
    ("duplicate-constant", ["dupcon = 1", "{I}«»dupcon = 2"], "duplicate-symbol", "error", ("T",)),
    ("odd-address", ["{I}.byte 1", "{I}«.word 1", "{I}.even"], "odd-address", "error", ("S",)),
    ("odd-address-bare-word", ["{I}.byte 1", "{I}«.word", "{I}.even"], "odd-address", "error", ("S",)),
    ("odd-address-bare-dword", ["{I}.byte 1", "{I}«.dword", "{I}.even"], "odd-address", "error", ("S",)),
    ("odd-address-dword", ["{I}.byte 1", "{I}«.dword 5", "{I}.even"], "odd-address", "error", ("S",)),
    ("odd-address-after-string", ["{I}.ascii /abc/", "{I}«.word 2", "{I}.even"], "odd-address", "error", ("S",)),
    ("odd-address-word-list", ["{I}.byte 1", "{I}«1, 2", "{I}.even"], "odd-address", "error", ("S",)),
    ("unencodable-in-ascii", ["{I}«.ascii »\"a€b\""], "invalid-character", "error", ("S", "T")),
    ("unencodable-char-literal", ["{I}«.word »'€"], "invalid-character", "error", ("T",)),
    ("rad50-foreign-char", ["{I}«.rad50 »\"a!b\""], "invalid-character", "error", ("T",)),
    ("rad50-literal-too-long", ["{I}«.word »^RABCD"], "invalid-string", "error", ("T",)),
    ("three-byte-char-literal", ["{I}«.word »'字"], None, "error", ("T",)),
    ("tape-name-too-long", ["{I}«make_wav \"x.wav\", \"seventeen chars..\""], "too-long-string", "error", ("S",)),
    ("user-error", ["{I}«.error something is wrong"], "user-error", "error", ("S",)),
    ("label-in-repeat", ["{I}«.repeat 2 { »inrep: nop }"], "unexpected-symbol-definition", "error", ("T",)),
    ("label-in-repeat-once", ["{I}«.repeat 1 { »inrep1: nop }"], "unexpected-symbol-definition", "error", ("T",)),
    ("assignment-in-repeat-once", ["{I}«.repeat 1 { »xr7q = 5 }"], "unexpected-symbol-definition", "error", ("T",)),
    ("local-label-in-repeat-once", ["{I}«.repeat 1 { »5$: nop }"], "unexpected-symbol-definition", "error", ("T",)),
    ("assignment-in-repeat", ["{I}«.repeat 3 { »xr8q = 5 }"], "unexpected-symbol-definition", "error", ("T",)),
    ("label-in-nested-repeat", ["{I}«.repeat 2 { .repeat 1 { »inrep2: nop } }"], "unexpected-symbol-definition", "error", ("T",)),
    ("unterminated-string", ["{I}«.ascii »\"abc"], None, "critical", ()),   # the string swallows the following lines: same file only
    ("bad-escape", ["{I}«.ascii \"a»\\qb\""], "invalid-escape", "error", ("T",)),
    ("register-named-label", ["{I}«»r0: nop"], "reserved-name", "error", ("T",)),
    ("register-named-constant", ["{I}«»sp = 1"], "reserved-name", "error", ("T",)),
    ("exported-local-label", ["{I}«»1:: nop"], "invalid-extern", "error", ("T",)),
    ("dot-double-equals", ["{I}«». == 1000"], "invalid-assignment", "error", ("S",)),
    ("missing-insert-file", ["{I}«insert_file \"nosuchfile.bin\""], "io-error", "error", ("S",)),
    ("missing-include", ["{I}«.include \"nosuchfile.mac\""], "io-error", "error", ("S",)),
    ("second-link", ["{I}«.link 3000"], "address-conflict", "error", ("S",)),
    ("comma-after-mnemonic", ["{I}«mov », r0"], "invalid-insn", "critical", ("T",)),
    ("bad-caret-prefix", ["{I}«.word »^Q5"], "invalid-expression", "critical", ("T",)),
    # an infix operator without its right operand, the offending token separated from it by blanks, a tab, a comment or a line break
    # a local label defined twice inside one scope (the second definition is the culprit)
    ("duplicate-local-label", ["{I}7$: nop", "{I}«7$: clr r0"], "duplicate-symbol", "error", ("S",)),
    ("duplicate-numeric-local-label", ["{I}77: nop", "{I}br 77", "{I}«77:\tclr r0"], "duplicate-symbol", "error", ("S",)),
    # a backward '. =' whose target is only known later (the check runs after the rest of the file has been compiled)
    ("backward-skip-late-target", ["bklab7:", "{I}«. = »bklab7 - bkoff7", "{I}nop", "bkoff7 = 4"], "value-out-of-bounds", "error", ("S", "T")),
    ("dangling-comma-insn", ["{I}«mov r0   », "], "invalid-operand", "critical", ("T",)),
    ("dangling-third-comma-data", ["{I}«.byte 1, 2, 3»,", "{I}.even"], "invalid-operand", "critical", ("T",)),
    ("dangling-second-comma-insn", ["{I}«mov r0, r1»,", "{I}.even"], "invalid-operand", "critical", ("T",)),
    ("dangling-third-comma-words", ["{I}«.word 1, 2 , 3   », ; tail", "{I}.even"], "invalid-operand", "critical", ("T",)),
    ("dangling-comma-insn-next-line", ["{I}«mov r0 ; why", "\t », "], "invalid-operand", "critical", ("T",)),
    ("dangling-operator-comma", ["{I}«.word 5 *   »,2"], "invalid-expression", "critical", ("T",)),
    ("dangling-operator-tab", ["{I}«mov #5 & \t», r0"], "invalid-expression", "critical", ("T",)),
    ("dangling-operator-bracket", ["{I}«.word <5 /  »>"], "invalid-expression", "critical", ("T",)),
    ("dangling-operator-next-line", ["{I}«.word 5 * ; why", "\t\t», 2"], "invalid-expression", "critical", ("T",)),
    # the first number of a compound branch operand that can be a local label is one: an undefined one is reported where it stands
    ("undefined-local-after-decimal", ["{I}«sob r0, 4.+»77"], "undefined-symbol", "error", ("T",)),
    ("undefined-local-after-minus", ["{I}«br -2+»66"], "undefined-symbol", "error", ("T",)),
    ("undefined-local-after-char", ["{I}«bne 'a-»55"], "undefined-symbol", "error", ("T",)),
    ("unclosed-bracket", ["{I}«.word (1 + 2"], "invalid-expression", "critical", None),
    ("missing-operand-after-comma", ["{I}«mov r0,", "{I}}}"], "invalid-operand", "critical", None),
    ("glued-operand", ["{I}«mov»#1, r0"], "missing-whitespace", "error", ("T",)),
    ("label-as-mnemonic", ["labmn: nop", "{I}«labmn 5"], "meta-type-mismatch", "error", ("S",)),
    ("non-symbol-in-extern", ["{I}«.extern »5"], "meta-type-mismatch", "error", ("T",)),
    ("string-where-number", ["{I}«.blkb »\"abc\""], None, "error", None),
    ("code-block-not-taken", ["{I}«clr r0 »{ nop }"], "wrong-operands", "error", ("T",)),
    # negative values where only a count / code makes sense (operands without a fixed width)
    ("repeat-negative", ["{I}«.repeat »-1 { nop }"], "value-out-of-bounds", "error", ("T", "T+1")),
    ("repeat-negative-symbol", ["rpn9 = 2 - 5", "{I}«.repeat »rpn9 { nop }"], "value-out-of-bounds", "error", ("T",)),
    ("align-negative", ["{I}«.align »-4"], "value-out-of-bounds", "error", ("T", "T+1")),
    ("rad50-negative-code", ["{I}«.rad50 /AB/ <»-3> /C/"], "value-out-of-bounds", "error", ("T", "T+1")),
    ("align-zero", ["{I}«.align 0"], "value-out-of-bounds", "error", ("S",)),
]

# warning-only plantings: must NOT fail the build (C07)
WARNINGS = [
    ("byte-without-operand", ["{I}.byte", "{I}.even"], "implicit-operand"),
    ("list-directive", ["{I}.list"], "not-implemented"),
    ("title-directive", ["{I}.title some title text"], "not-implemented"),
    ("page-directive", ["{I}.page"], "not-implemented"),
    ("legacy-deferred", ["{I}clr @r1"], "legacy-deferred"),
    ("implicit-index", ["{I}clr @(r1)"], "implicit-index"),
    ("excess-hash", ["{I}emt #1"], "excess-hash"),
    ("excess-quote", ["{I}.word 'a'"], "excess-quote"),
    ("meta-typo", ["{I}word 1"], "meta-typo"),
    ("suspicious-name", ["mov: nop"], "suspicious-name"),
    ("missing-newline", ["{I}nop nop"], "missing-newline"),
    ("label-fixup", ["{I}br 1+2", "1: nop"], "label-fixup"),
]


def render(kind, indent=""):
    """Returns dict(lines, ident, sev, T, S, accept).  T/S are (line offset, column in characters of the raw line)."""
    for k, tpl, ident, sev, accept in CATALOGUE:
        if k == kind:
            break
    else:
        raise KeyError(kind)
    lines = []
    T = S = None
    for i, t in enumerate(tpl):
        line = t.replace("{I}", indent).replace("}}", "}")
        if "«" in line:
            s = line.index("«")
            line = line.replace("«", "", 1)
            if "»" in line and line.index("»") < s:
                raise ValueError("T before S")
            S = (i, s)
        if "»" in line:
            T = (i, line.index("»"))
            line = line.replace("»", "", 1)
        lines.append(line)
    if T is None:
        T = S
    return {"kind": kind, "lines": lines, "ident": ident, "sev": sev, "T": T, "S": S, "accept": accept}


def render_warning(kind, indent=""):
    for k, tpl, ident in WARNINGS:
        if k == kind:
            return {"kind": kind, "lines": [t.replace("{I}", indent) for t in tpl], "ident": ident, "sev": "warning"}
    raise KeyError(kind)


KINDS = [c[0] for c in CATALOGUE]
WARNING_KINDS = [w[0] for w in WARNINGS]


def column_of(line, char_index, tab=4):
    """1-based display column of a character index, a tab counting as `tab` columns."""
    return char_index + line[:char_index].count("\t") * (tab - 1) + 1
