"""Independent PDP-11 decoder and reference mnemonic table (C01, C04, C09).  Imports nothing from pdpy11.

Written from the PDP-11 processor handbook opcode map (base set, EIS, FIS, FP11, CIS, MFPT/SPL/MARK/CSM/TSTSET/WRTLCK,
MFPI/MTPI/MFPD/MTPD/MTPS/MFPS).  The non-DEC / maintenance opcodes at the end are a frozen transcription.

decode(words, addr) -> (op, operands, nwords) with operands in ASSEMBLER SOURCE ORDER:
    ('G', mode, reg, ext)   general operand; ext is the extension word (None if the form has none)
    ('R', n)                register field
    ('A', n)                FP accumulator field (0..3)
    ('N', n)                inline number
    ('B', target)           branch / SOB target address
MNEMONICS: name -> (canonical op, [operand kinds], fixed) describes how each mnemonic is WRITTEN:
    kinds: G general, R register, A accumulator 0-3, F FP general (register mode means ac0-5), N3/N6/N8 inline, B branch, S sob
"""

M16 = 0xFFFF


def sext8(v):
    return v - 256 if v & 0x80 else v


# (mask, value, op, layout) ; layout letters consumed left to right give operands in source order
#   D: general operand in bits 0-5      S: general operand in bits 6-11
#   r: register in bits 6-8             q: register in bits 0-2
#   a: accumulator in bits 6-7          3/6/8: inline number of that many low bits
#   B: 8-bit branch displacement        O: 6-bit SOB displacement
TABLE = []


def _t(mask, value, op, layout=""):
    TABLE.append((mask, value, op, layout))


for _i, _n in enumerate(["HALT", "WAIT", "RTI", "BPT", "IOT", "RESET", "RTT", "MFPT"]):
    _t(0o177777, _i, _n)
_t(0o177700, 0o000100, "JMP", "D")
_t(0o177770, 0o000200, "RTS", "q")
_t(0o177770, 0o000230, "SPL", "3")
_t(0o177700, 0o000300, "SWAB", "D")
for _v, _n in [(0o000400, "BR"), (0o001000, "BNE"), (0o001400, "BEQ"), (0o002000, "BGE"), (0o002400, "BLT"), (0o003000, "BGT"),
               (0o003400, "BLE"), (0o100000, "BPL"), (0o100400, "BMI"), (0o101000, "BHI"), (0o101400, "BLOS"), (0o102000, "BVC"),
               (0o102400, "BVS"), (0o103000, "BCC"), (0o103400, "BCS")]:
    _t(0o177400, _v, _n, "B")
_t(0o177000, 0o004000, "JSR", "rD")
for _i, _n in enumerate(["CLR", "COM", "INC", "DEC", "NEG", "ADC", "SBC", "TST", "ROR", "ROL", "ASR", "ASL"]):
    _t(0o177700, 0o005000 + _i * 0o100, _n, "D")
    _t(0o177700, 0o105000 + _i * 0o100, _n + "B", "D")
_t(0o177700, 0o006400, "MARK", "6")
_t(0o177700, 0o006500, "MFPI", "D")
_t(0o177700, 0o006600, "MTPI", "D")
_t(0o177700, 0o006700, "SXT", "D")
_t(0o177700, 0o007000, "CSM", "D")
_t(0o177700, 0o007200, "TSTSET", "D")
_t(0o177700, 0o007300, "WRTLCK", "D")
_t(0o177700, 0o106400, "MTPS", "D")
_t(0o177700, 0o106500, "MFPD", "D")
_t(0o177700, 0o106600, "MTPD", "D")
_t(0o177700, 0o106700, "MFPS", "D")
for _i, _n in [(1, "MOV"), (2, "CMP"), (3, "BIT"), (4, "BIC"), (5, "BIS"), (6, "ADD")]:
    _t(0o170000, _i << 12, _n, "SD")
for _i, _n in [(0o11, "MOVB"), (0o12, "CMPB"), (0o13, "BITB"), (0o14, "BICB"), (0o15, "BISB"), (0o16, "SUB")]:
    _t(0o170000, _i << 12, _n, "SD")
_t(0o177000, 0o070000, "MUL", "Dr")
_t(0o177000, 0o071000, "DIV", "Dr")
_t(0o177000, 0o072000, "ASH", "Dr")
_t(0o177000, 0o073000, "ASHC", "Dr")
_t(0o177000, 0o074000, "XOR", "rD")
_t(0o177770, 0o075000, "FADD", "q")
_t(0o177770, 0o075010, "FSUB", "q")
_t(0o177770, 0o075020, "FMUL", "q")
_t(0o177770, 0o075030, "FDIV", "q")
_t(0o177770, 0o076020, "L2DR", "q")
_t(0o177770, 0o076060, "L3DR", "q")
_CIS = {0o30: "MOVC", 0o31: "MOVRC", 0o32: "MOVTC", 0o40: "LOCC", 0o41: "SKPC", 0o42: "SCANC", 0o43: "SPANC", 0o44: "CMPC",
        0o45: "MATC", 0o50: "ADDN", 0o51: "SUBN", 0o52: "CMPN", 0o53: "CVTNL", 0o54: "CVTPN", 0o55: "CVTNP", 0o56: "ASHN",
        0o57: "CVTLN", 0o70: "ADDP", 0o71: "SUBP", 0o72: "CMPP", 0o73: "CVTPL", 0o74: "MULP", 0o75: "DIVP", 0o76: "ASHP",
        0o77: "CVTLP"}
for _v, _n in _CIS.items():
    _t(0o177777, 0o076000 + _v, _n)
    _t(0o177777, 0o076100 + _v, _n + "I")
_t(0o177777, 0o076600, "MED")
_t(0o177777, 0o076601, "MED74C")
_t(0o177700, 0o076700, "XFC", "6")
_t(0o177000, 0o077000, "SOB", "rO")
_t(0o177400, 0o104000, "EMT", "8")
_t(0o177400, 0o104400, "TRAP", "8")
for _v, _n in [(0, "CFCC"), (1, "SETF"), (2, "SETI"), (0o11, "SETD"), (0o12, "SETL")]:
    _t(0o177777, 0o170000 + _v, _n)
_t(0o177700, 0o170100, "LDFPS", "D")
_t(0o177700, 0o170200, "STFPS", "D")
_t(0o177700, 0o170300, "STST", "D")
_t(0o177700, 0o170400, "CLRF", "D")
_t(0o177700, 0o170500, "TSTF", "D")
_t(0o177700, 0o170600, "ABSF", "D")
_t(0o177700, 0o170700, "NEGF", "D")
_t(0o177400, 0o171000, "MULF", "Da")
_t(0o177400, 0o171400, "MODF", "Da")
_t(0o177400, 0o172000, "ADDF", "Da")
_t(0o177400, 0o172400, "LDF", "Da")
_t(0o177400, 0o173000, "SUBF", "Da")
_t(0o177400, 0o173400, "CMPF", "Da")
_t(0o177400, 0o174000, "STF", "aD")
_t(0o177400, 0o174400, "DIVF", "Da")
_t(0o177400, 0o175000, "STEXP", "aD")
_t(0o177400, 0o175400, "STCFI", "aD")
_t(0o177400, 0o176000, "STCFD", "aD")
_t(0o177400, 0o176400, "LDEXP", "Da")
_t(0o177400, 0o177000, "LDCIF", "Da")
_t(0o177400, 0o177400, "LDCDF", "Da")
# --- frozen transcriptions (no second source in this sandbox; change detection only)
FROZEN = {0o000012: "START", 0o000016: "STEP", 0o000020: "RD", 0o000021: "URD", 0o000022: "RDPC", 0o000024: "RDPS",
          0o000031: "UWR", 0o000032: "WRPC", 0o000034: "WRPS", 0o000220: "U3000",
          0o170003: "LDUB", 0o170004: "MNS", 0o170005: "MPP", 0o170006: "MRS", 0o170007: "STQ0"}
for _v, _n in FROZEN.items():
    _t(0o177777, _v, _n)
_t(0o177770, 0o000210, "MEDLSI", "q")


def _cc_name(word):
    if word == 0o240:
        return "NOP"
    name = "SE" if word & 0o20 else "CL"
    for bit, ch in ((8, "N"), (4, "Z"), (2, "V"), (1, "C")):
        if word & bit:
            name += ch
    return name


def _general(field, words, idx):
    mode, reg = field >> 3, field & 7
    if mode in (6, 7) or (mode in (2, 3) and reg == 7):
        if idx >= len(words):
            return ("G", mode, reg, "MISSING"), idx
        return ("G", mode, reg, words[idx]), idx + 1
    return ("G", mode, reg, None), idx


def decode(words, addr):
    """words: list of 16-bit ints starting at the instruction; addr: its address."""
    w = words[0]
    if 0o240 <= w <= 0o277:
        return _cc_name(w), [], 1
    for mask, value, op, layout in TABLE:
        if w & mask == value:
            break
    else:
        return "ILLEGAL", [("N", w)], 1
    ops = []
    idx = 1
    for ch in layout:
        if ch == "D":
            o, idx = _general(w & 0o77, words, idx)
            ops.append(o)
        elif ch == "S":
            o, idx = _general((w >> 6) & 0o77, words, idx)
            ops.append(o)
        elif ch == "r":
            ops.append(("R", (w >> 6) & 7))
        elif ch == "q":
            ops.append(("R", w & 7))
        elif ch == "a":
            ops.append(("A", (w >> 6) & 3))
        elif ch in "368":
            ops.append(("N", w & ((1 << int(ch)) - 1)))
        elif ch == "B":
            ops.append(("B", (addr + 2 + 2 * sext8(w & 0xFF)) & M16))
        elif ch == "O":
            ops.append(("B", (addr + 2 - 2 * (w & 0o77)) & M16))
    return op, ops, idx


def effective_address(operand, ext_addr):
    """For PC-relative forms (mode 6/7 with reg 7): the address the operand refers to; ext_addr = address of its extension word."""
    _, mode, reg, ext = operand
    if reg == 7 and mode in (6, 7):
        return (ext + ext_addr + 2) & M16
    return None


# ---------------------------------------------------------------------------------------------
# how each mnemonic is written: name -> (canonical op, kinds, fixed)
# 'fixed' describes assembler-level macros: a function(operands) -> operands in canonical order

MNEMONICS = {}


def _m(names, op, kinds=(), fixed=None):
    for n in names.split():
        MNEMONICS[n] = (op, list(kinds), fixed)


_m("halt hlt", "HALT")
for _n in "wait rti bpt iot reset rtt mfpt".split():
    _m(_n, _n.upper())
for _n in FROZEN.values():
    if _n not in ("MNS", "MPP", "MRS"):
        _m(_n.lower(), _n)
_m("mns msn ldsc", "MNS")
_m("mpp sta0", "MPP")
_m("mrs stb0", "MRS")
_m("medlsi", "MEDLSI", "R")
_m("jmp callr", "JMP", "G")
_m("rts", "RTS", "R")
_m("ret return", "RTS", (), lambda ops: [("R", 7)])
_m("spl", "SPL", ["N3"])
_m("nop", "NOP")
for _bits in range(1, 16):
    _suffix = "".join(ch for bit, ch in ((8, "n"), (4, "z"), (2, "v"), (1, "c")) if _bits & bit)
    _m("cl" + _suffix, "CL" + _suffix.upper())
    _m("se" + _suffix, "SE" + _suffix.upper())
_m("ccc", "CLNZVC")
_m("scc", "SENZVC")
_m("swab", "SWAB", "G")
for _n in "br bne beq bge blt bgt ble bpl bmi bhi blos bvc bvs bcc bcs".split():
    _m(_n, _n.upper(), "B")
_m("bhis", "BCC", "B")
_m("blo", "BCS", "B")
_m("jsr", "JSR", "RG")
_m("call", "JSR", "G", lambda ops: [("R", 7), ops[0]])
for _n in "clr com inc dec neg adc sbc tst ror rol asr asl".split():
    _m(_n, _n.upper(), "G")
    _m(_n + "b", _n.upper() + "B", "G")
_m("mark", "MARK", ["N6"])
for _n in "mfpi mtpi sxt csm tstset wrtlck mtps mfpd mtpd mfps ldfps stfps stst".split():
    _m(_n, _n.upper(), "G")
for _n in "mov cmp bit bic bis add movb cmpb bitb bicb bisb sub".split():
    _m(_n, _n.upper(), "GG")
_m("push", "MOV", "G", lambda ops: [ops[0], ("G", 4, 6, None)])
_m("pop", "MOV", "G", lambda ops: [("G", 2, 6, None), ops[0]])
for _n in "mul div ash ashc".split():
    _m(_n, _n.upper(), "GR")
_m("xor", "XOR", "RG")
for _n in "fadd fsub fmul fdiv l2dr l3dr".split():
    _m(_n, _n.upper(), "R")
for _n in _CIS.values():
    _m(_n.lower(), _n)
    _m(_n.lower() + "i", _n + "I")
_m("med med6x", "MED")
_m("med74c", "MED74C")
_m("xfc", "XFC", ["N6"])
_m("sob", "SOB", "RS")
_m("emt", "EMT", ["N8"])
_m("trap sys", "TRAP", ["N8"])
for _n in "cfcc setf seti setd setl".split():
    _m(_n, _n.upper())
for _f, _d in (("clrf", "clrd"), ("tstf", "tstd"), ("absf", "absd"), ("negf", "negd")):
    _m(f"{_f} {_d}", _f.upper(), "F")
for _f, _d in (("mulf", "muld"), ("modf", "modd"), ("addf", "addd"), ("ldf", "ldd"), ("subf", "subd"), ("cmpf", "cmpd"), ("divf", "divd")):
    _m(f"{_f} {_d}", _f.upper(), "FA")
_m("stf std", "STF", "AF")
_m("stexp", "STEXP", "AG")
_m("stcfi stcfl stcdi stcdl", "STCFI", "AG")
_m("stcfd stcdf", "STCFD", "AF")
_m("ldexp", "LDEXP", "GA")
_m("ldcif ldcid ldclf ldcld", "LDCIF", "GA")
_m("ldcfd ldcdf", "LDCDF", "FA")

assert len(MNEMONICS) == 252, len(MNEMONICS)

BRANCHES = [n for n, (_, k, _) in MNEMONICS.items() if k == ["B"]]
assert len(BRANCHES) == 17


def expected(name, operands):
    """Canonical (op, operands) that `name operands` must decode to; operands in source order, same tuples as decode()."""
    op, _kinds, fixed = MNEMONICS[name]
    ops = list(operands)
    if fixed is not None:
        ops = fixed(ops)
    return op, ops
