#!/venv/bin/python
"""Prove that the monitors fire: plant a small defect in a scratch copy of /repo, check that the pinned
tests still pass there, run the quick check against the copy (VERIF_REPO) and expect exit 1.

    mutants.py list
    mutants.py run [--only C14[,C15]] [--name substr] [--no-tests] [--tier quick]
    mutants.py seeded [--only ...]        # the same for /verif/seeded/*/patch.diff

Scratch copies live under a fresh temporary directory and are removed after each mutant.
Nothing is ever written to /repo; evidence and replays of these runs go to the scratch VERIF_OUT.
"""
import argparse
import json
import os
import shutil
import subprocess
import sys
import tempfile

HERE = os.path.dirname(os.path.abspath(__file__))
VERIF = os.path.dirname(HERE)
REPO = "/repo"
PY = "/venv/bin/python"

# (property, name, file, old, new)
MUTANTS = [
    ("C14", "swap-two-koi8-entries", "pdpy11/bk_encoding.py", '"ю"   , "а"   ,', '"а"   , "ю"   ,'),
    ("C14", "second-spelling-added", "pdpy11/bk_encoding.py", '"%"   , "&"', '"%‰"  , "&"'),
    ("C14", "error-start-off-by-one", "pdpy11/bk_encoding.py", "        start = 0\n", "        start = 1\n"),
    ("C15", "1600-to-1640", "pdpy11/metacommands.py", "a * 1600 + b * 40 + c", "a * 1640 + b * 40 + c"),
    ("C15", "table-dollar-dot-swapped", "pdpy11/radix50.py", "XYZ$.%", "XYZ.$%"),
    ("C01", "asr-opcode-digit", "pdpy11/architecture.py", '"asr"   : "0062dd"', '"asr"   : "0063dd"'),
    ("C01", "fp-field-shift", "pdpy11/insns.py", 'FP11RMOperandStub("S", [7, 6, 5, 4, 3, 2])', 'FP11RMOperandStub("S", [5, 4, 3, 2, 1, 0])'),
    ("C01", "two-operand-order-swapped", "pdpy11/insns.py", """            operands.append(RegisterModeOperandStub("s", [5, 4, 3, 2, 1, 0]))
            operands.append(RegisterModeOperandStub("s", [11, 10, 9, 8, 7, 6]))""", """            operands.append(RegisterModeOperandStub("s", [11, 10, 9, 8, 7, 6]))
            operands.append(RegisterModeOperandStub("s", [5, 4, 3, 2, 1, 0]))"""),
    ("C01", "autodec-deferred-mode-const", "pdpy11/insns.py", "return 0o50 | register, b\"\"", "return 0o40 | register, b\"\""),
    ("C01", "bhis-is-bcs", "pdpy11/architecture.py", '"bhis"  : "103[0oo]oo"', '"bhis"  : "103[1oo]oo"'),
    ("C01", "xor-register-in-low-bits", "pdpy11/architecture.py", '"xor"   : "074sdd"', '"xor"   : "074dds"'),
    ("C01", "sob-operand-order", "pdpy11/insns.py", """            if cnt_d == 0:
                operands.append(operand)""", """            if cnt_d == 0 and cnt_s == 0:
                operands.append(operand)"""),
    ("C01", "stexp-ac-field", "pdpy11/architecture.py", '"stexp" : "175[0SS]dd"', '"stexp" : "175[1SS]dd"'),
    ("C04", "max-offset-plus-2", "pdpy11/insns.py", "max_offset = 0 if self.unsigned else 2 ** bitness - 2", "max_offset = 0 if self.unsigned else 2 ** bitness"),
    ("C04", "parity-check-dropped", "pdpy11/insns.py", "            if offset % 2 == 1:\n", "            if False and offset % 2 == 1:\n"),
    ("C04", "rel-address-ignores-preceding-ext", "pdpy11/insns.py", '"rel_address": state["emit_address"] + 2 + len(operands_encoding)', '"rel_address": state["emit_address"] + 2'),
    ("C04", "min-offset-strict", "pdpy11/insns.py", "if not min_offset <= offset <= max_offset:", "if not min_offset < offset <= max_offset:"),
    ("C04", "relative-deferred-minus-2-dropped", "pdpy11/insns.py", """return 0o77, SizedDeferred[bytes](2, lambda: struct.pack("<H", wait(operand.operand.resolve(state) - state["rel_address"] - 2)""", """return 0o77, SizedDeferred[bytes](2, lambda: struct.pack("<H", wait(operand.operand.resolve(state) - state["rel_address"])"""),
    ("C04", "sob-min-offset", "pdpy11/insns.py", "min_offset = -2 ** (bitness + self.unsigned) + 2 * self.unsigned", "min_offset = -2 ** (bitness + self.unsigned)"),
    ("C04", "error-only-warning", "pdpy11/insns.py", """                    reports.error(
                        "branch-out-of-bounds",
                        (insn.name.ctx_start, insn.name.ctx_end, f"Instruction '{insn.name.name}' can only jump from""", """                    reports.warning(
                        "branch-out-of-bounds",
                        (insn.name.ctx_start, insn.name.ctx_end, f"Instruction '{insn.name.name}' can only jump from"""),
    ("C08", "new-assert-in-insn", "pdpy11/insns.py", """        replacements = []
        operands_encoding = b\"\"
""", """        assert not any(isinstance(o, operators.postsub) for o in insn.operands)
        replacements = []
        operands_encoding = b\"\"
"""),
    ("C08", "silent-failure", "pdpy11/reports.py", """    handler = handle_reports.handlers_stack[-1]
    handler(priority, identifier, *reports)
""", """    handler = handle_reports.handlers_stack[-1]
    if identifier != "odd-branch":
        handler(priority, identifier, *reports)
"""),
    ("C08", "keyerror-on-unknown-escape", "pdpy11/parser.py", """    elif char in "\\\\\\"'/":
        return char""", """    elif char in "\\\\\\"'/":
        return {"\\\\": "\\\\", "\\"": "\\"", "'": "'"}[char]"""),
    ("C08", "fixup-loop", "pdpy11/types.py", """        for name in candidates:
            if name in compiler.symbols:
                return compiler.symbols[name]
""", """        for name in candidates:
            while name in compiler.symbols and state.get("context") == "repeat":
                pass
            if name in compiler.symbols:
                return compiler.symbols[name]
"""),
    ("C18", "depth-not-restored-on-exception", "pdpy11/deferred.py", """    def __exit__(self, exc_type, exc_value, exc_tb):
        self.depth -= 1
        return exc_type is NotReadyError""", """    def __exit__(self, exc_type, exc_value, exc_tb):
        if exc_type is None or exc_type is NotReadyError:
            self.depth -= 1
        return exc_type is NotReadyError"""),
    ("C18", "handler-popped-after-raise", "pdpy11/reports.py", """    def __exit__(self, exc_type, exc_value, exc_tb):
        assert self.handlers_stack.pop() is self

        if hasattr(self.obj, "__exit__"):""", """    def __exit__(self, exc_type, exc_value, exc_tb):
        if exc_type is None or exc_type is UnrecoverableError:
            assert self.handlers_stack.pop() is self

        if hasattr(self.obj, "__exit__"):"""),
    ("C18", "set-iteration-order", "pdpy11/compiler.py", """        for _, (_, value) in self.symbols.items():
            wait(value)""", """        for _, (_, value) in sorted(self.symbols.items(), key=lambda kv: hash(kv[0])):
            wait(value)"""),
    ("C18", "cached-link-base-across-runs", "pdpy11/compiler.py", """        if not link_base["promise"].settled:
            link_base["promise"].settle(0o1000)

        base, code""", """        if not link_base["promise"].settled:
            link_base["promise"].settle(getattr(Compiler, "last_base", 0o1000))
        Compiler.last_base = wait(link_base["promise"])

        base, code"""),
    ("C13", "bit-order-msb-first", "pdpy11/bk_wav.py", "(byte >> i) & 1", "(byte >> (7 - i)) & 1"),
    ("C13", "checksum-mod-65536", "pdpy11/bk_wav.py", "            result -= 0xffff\n", "            result -= 0x10000\n"),
    ("C13", "name-padded-with-nul", "pdpy11/metacommands.py", 'encoded_bk_filename.ljust(16, b" ")', 'encoded_bk_filename.ljust(16, b"\\0")'),
    ("C13", "bin-length-field-plus-header", "pdpy11/formats.py", 'struct.pack("<HH", base, len(code))', 'struct.pack("<HH", base, len(code) + 4)'),
    ("C13", "wav-ext-not-stripped-from-tape-name", "pdpy11/metacommands.py", 'if bk_filename.lower().endswith(".wav"):', 'if bk_filename.endswith(".wav"):'),
    ("C13", "turbo-pause-dropped", "pdpy11/bk_wav.py", '(env.PAUSE if turbo else b"")', 'b""'),
    ("C13", "riff-size-off", "pdpy11/bk_wav.py", "36 + len(data),", "44 + len(data),"),
    ("C13", "make_raw-gets-extension", "pdpy11/metacommands.py", 'add_emitted_file(state, raw_file_path, "raw", None)', 'add_emitted_file(state, raw_file_path, "raw", "raw")'),
    ("C13", "implicit-bin-keeps-mac", "pdpy11/_cli.py", """                if filename.lower().endswith(".mac"):
                    filename = filename[:-4]
                args.outfile""", """                if filename.endswith(".mac"):
                    filename = filename[:-4]
                args.outfile"""),
    ("C15", "rad50-code-limit", "pdpy11/metacommands.py", "if val >= 40:", "if val > 40:"),
]


sys.path.insert(0, HERE)
from mutants_extra import EXTRA  # noqa: E402
MUTANTS = MUTANTS + EXTRA


def make_copy(scratch):
    dst = os.path.join(scratch, "repo")
    subprocess.run(["rsync", "-a", "--exclude", ".git", "--exclude", "__pycache__", "--exclude", ".pytest_cache",
                    REPO + "/", dst + "/"], check=True)
    return dst


def run_tests(dst):
    env = dict(os.environ)
    env.pop("PDPY11_VERIF", None)
    env["PYTHONDONTWRITEBYTECODE"] = "1"
    r = subprocess.run([PY, "-m", "pytest", "-q", "-p", "no:cacheprovider", "--continue-on-collection-errors", "-x", "tests/test_parser.py", "tests/test_types.py"],
                       cwd=dst, env=env, capture_output=True, text=True)
    tail = r.stdout.strip().splitlines()[-1] if r.stdout.strip() else r.stderr[-200:]
    return "180 passed" in tail, tail


def run_check(prop, dst, scratch, tier, seed=0):
    env = dict(os.environ, VERIF_REPO=dst, VERIF_OUT=os.path.join(scratch, "out"), VERIF_SEED=str(seed))
    r = subprocess.run([PY, os.path.join(VERIF, "run_check.py"), prop, "--tier", tier], cwd=VERIF, env=env,
                       capture_output=True, text=True)
    return r.returncode, r.stdout, r.stderr


def one(prop, name, apply_fn, args):
    scratch = tempfile.mkdtemp(prefix="pdpy11-mutant-")
    try:
        dst = make_copy(scratch)
        err = apply_fn(dst)
        if err:
            return {"property": prop, "name": name, "status": "PATCH-FAILED", "detail": err}
        tests_ok, tail = (True, "skipped") if args.no_tests else run_tests(dst)
        props = [prop] if not args.cross else args.cross.split(",")
        results = {}
        for p in props:
            code, out, errtxt = run_check(p, dst, scratch, args.tier)
            first = next((l for l in out.splitlines() if l.strip().startswith("violation:")), "")
            results[p] = {"exit": code, "first": first.strip()[:300], "stderr": errtxt[-300:] if code not in (0, 1, 2) else ""}
        caught = results[prop]["exit"] == 1 if prop in results else any(r["exit"] == 1 for r in results.values())
        return {"property": prop, "name": name, "status": "CAUGHT" if caught else "MISSED", "tests_pass": tests_ok,
                "tests": tail, "results": results}
    finally:
        shutil.rmtree(scratch, ignore_errors=True)


def replace_mutant(file, old, new):
    def fn(dst):
        path = os.path.join(dst, file)
        s = open(path, encoding="utf-8").read()
        if s.count(old) < 1:
            return f"pattern not found in {file}: {old!r}"
        s = s.replace(old, new, 1)
        open(path, "w", encoding="utf-8").write(s)
        return None
    return fn


def patch_mutant(patch):
    def fn(dst):
        r = subprocess.run(["patch", "-p1", "-s", "-i", patch], cwd=dst, capture_output=True, text=True)
        return None if r.returncode == 0 else (r.stdout + r.stderr)[-400:]
    return fn


def main():
    ap = argparse.ArgumentParser()
    ap.add_argument("cmd", choices=["list", "run", "seeded"])
    ap.add_argument("--only")
    ap.add_argument("--name")
    ap.add_argument("--no-tests", action="store_true")
    ap.add_argument("--tier", default="quick")
    ap.add_argument("--cross", help="comma list of checks to run against each mutant instead of its own")
    ap.add_argument("--json")
    ap.add_argument("--record", action="store_true", help="seeded mode: write which checks caught the change into its meta.json")
    args = ap.parse_args()
    only = set(args.only.split(",")) if args.only else None
    jobs = []
    if args.cmd in ("list", "run"):
        for prop, name, file, old, new in MUTANTS:
            if only and prop not in only:
                continue
            if args.name and args.name not in name:
                continue
            jobs.append((prop, name, replace_mutant(file, old, new)))
    else:
        sd = os.path.join(VERIF, "seeded")
        for d in sorted(os.listdir(sd)) if os.path.isdir(sd) else []:
            meta_p = os.path.join(sd, d, "meta.json")
            if not os.path.exists(meta_p):
                continue
            meta = json.load(open(meta_p))
            prop = meta["property"]
            if only and prop not in only:
                continue
            if args.name and args.name not in d:
                continue
            if meta.get("obsolete"):
                # a later repair of /repo removed the only construct this change could bite: with the patch applied its own
                # demonstration passes again, so on the current tree it does not break the property any more
                print(f"OBSOLETE     {prop} {d}  {meta['obsolete'][:150]}", flush=True)
                continue
            jobs.append((prop, d, patch_mutant(os.path.join(sd, d, "patch.diff"))))
    if args.cmd == "list":
        for prop, name, _ in jobs:
            print(prop, name)
        return 0
    results = []
    import concurrent.futures
    # checks themselves use 16 workers; run mutants 4 at a time
    with concurrent.futures.ThreadPoolExecutor(int(os.environ.get("MUTANT_JOBS", "4"))) as pool:
        for r in pool.map(lambda j: one(j[0], j[1], j[2], args), jobs):
            results.append(r)
            extra = ""
            if r["status"] in ("CAUGHT", "MISSED"):
                extra = f"tests={'pass' if r['tests_pass'] else 'FAIL(' + r['tests'] + ')'} " + \
                        " ".join(f"{p}:exit{v['exit']}" for p, v in r["results"].items())
                first = next((v["first"] for v in r["results"].values() if v["first"]), "")
                extra += "  " + first[:160]
                bad = [v["stderr"] for v in r["results"].values() if v["stderr"]]
                if bad:
                    extra += " STDERR: " + bad[0]
            else:
                extra = r.get("detail", "")
            print(f"{r['status']:12s} {r['property']} {r['name']}  {extra}", flush=True)
    if args.json:
        json.dump(results, open(args.json, "w"), indent=1)
    if args.cmd == "seeded" and args.record:
        for r in results:
            mp = os.path.join(VERIF, "seeded", r["name"], "meta.json")
            if os.path.exists(mp) and "results" in r:
                meta = json.load(open(mp))
                checks = meta.setdefault("checks_run", {})
                for p2, v in r["results"].items():
                    checks[p2] = {"tier": args.tier, "exit": v["exit"], "first_violation": v["first"][:200]}
                meta["caught_by"] = sorted(p2 for p2, v in checks.items() if v["exit"] == 1)
                json.dump(meta, open(mp, "w"), indent=1)
    missed = [r for r in results if r["status"] != "CAUGHT"]
    print(f"{len(results) - len(missed)}/{len(results)} caught")
    return 1 if missed else 0


if __name__ == "__main__":
    sys.exit(main())
