"""More replace-mutants (property, name, file, old, new); kept apart from mutants.py to keep quoting simple."""
EXTRA = [
    ("C02", "dword-size-2n", "pdpy11/metacommands.py",
     "@metacommand(size=lambda state, *operands: 4 * (len(operands) or 1))",
     "@metacommand(size=lambda state, *operands: 2 * (len(operands) or 1))"),
    ("C02", "wordlist-does-not-advance", "pdpy11/compiler.py",
     """                    data += chunk
                    if isinstance(chunk, BaseDeferred):
                        addr += chunk.length()
                    else:
                        addr += len(chunk)

                elif isinstance(insn, Label):""",
     """                    data += chunk

                elif isinstance(insn, Label):"""),
    ("C02", "concatenator-length-skips-bytes", "pdpy11/deferred.py",
     """            else:
                total_len += len(elem)
        return total_len""",
     """            elif len(elem) != 3:
                total_len += len(elem)
        return total_len"""),
    ("C02", "even-parity-swapped", "pdpy11/metacommands.py",
     """def even(state) -> bytes:
    return b"\\x00" if wait(state["emit_address"]) % 2 == 1 else b\"\"""",
     """def even(state) -> bytes:
    return b"\\x00" if wait(state["emit_address"]) % 2 == 0 else b\"\""""),
    ("C02", "repeat-addr-not-accumulated", "pdpy11/metacommands.py",
     """        if isinstance(chunk, BaseDeferred):
            addr += chunk.length()
        else:
            addr += len(chunk)
        result += chunk""",
     """        result += chunk"""),
    ("C02", "blkw-factor", "pdpy11/metacommands.py",
     'return b"\\x00\\x00" * blkw_count', 'return b"\\x00" * blkw_count'),
    ("C02", "skip-length-off-by-one", "pdpy11/compiler.py",
     "                                    length = new_addr_value - old_addr_value\n",
     "                                    length = new_addr_value - old_addr_value + (1 if old_addr_value % 8 == 6 else 0)\n"),
    ("C02", "label-gets-address-after-next", "pdpy11/compiler.py",
     "        self.symbols[name] = (label, addr)\n",
     "        self.symbols[name] = (label, addr + (2 if label.name.endswith('7') else 0))\n"),
    ("C02", "insert-file-drops-last-byte-when-long", "pdpy11/metacommands.py",
     """        with open(include_path, "rb") as f:
            return f.read()""",
     """        with open(include_path, "rb") as f:
            return f.read()[:255]"""),
    ("C16", "revert-repeat-deepcopy", "pdpy11/compiler.py",
     "                    insn = copy.deepcopy(insn)\n", "                    pass\n"),
    ("C16", "revert-repeat-local-scope", "pdpy11/compiler.py",
     """        if state["context"] == "repeat" and "local_symbol_prefix" in state:""",
     """        if False and state["context"] == "repeat" and "local_symbol_prefix" in state:"""),
    ("C16", "once-threshold", "pdpy11/metacommands.py",
     """    if state["compiler"].times_file_compiled[state["filename"]] > 1:""",
     """    if state["compiler"].times_file_compiled[state["filename"]] > 2:"""),
    ("C16", "end-stops-all-files", "pdpy11/compiler.py",
     """        for file_ast in files_ast:
            data = self.compile_file(file_ast, addr, link_base)""",
     """        for file_ast in files_ast:
            if any(getattr(i, "name", None) is not None and getattr(i.name, "name", "").lower() == ".end" for f in files_ast[:files_ast.index(file_ast)] for i in f.body.insns if hasattr(i, "operands")):
                break
            data = self.compile_file(file_ast, addr, link_base)"""),
    ("C16", "insert-file-text-mode", "pdpy11/metacommands.py",
     """        with open(include_path, "rb") as f:
            return f.read()""",
     """        with open(include_path, "rb") as f:
            return f.read().replace(b"\\r\\n", b"\\n")"""),
    ("C16", "second-linked-file-new-local-counter-offset", "pdpy11/compiler.py",
     """            data = self.compile_file(file_ast, addr, link_base)
            generated_code += data""",
     """            data = self.compile_file(file_ast, addr + (2 if len(self.times_file_compiled) == 2 else 0), link_base)
            generated_code += data"""),
    ("C10", "literal-case-sensitive-default", "pdpy11/parser.py",
     "    def literal(cls, literal, skip_whitespace_before=True, case_sensitive=False):",
     "    def literal(cls, literal, skip_whitespace_before=True, case_sensitive=True):"),
    ("C10", "dict-get-without-lower", "pdpy11/containers.py",
     "        return self.container.get(key.lower(), (None, default))[1]",
     "        return self.container.get(key, (None, default))[1]"),
    ("C10", "register-names-lowercase-only", "pdpy11/insns.py",
     "    if isinstance(operand, Symbol) and not operand.is_necessarily_label and operand.name.lower() in REGISTER_NAMES:\n        return REGISTER_NAMES[operand.name.lower()]",
     "    if isinstance(operand, Symbol) and not operand.is_necessarily_label and operand.name in REGISTER_NAMES:\n        return REGISTER_NAMES[operand.name]"),
    ("C10", "hex-prefix-upper-x-rejected", "pdpy11/parser.py",
     "        base_char = num[1].lower()", "        base_char = num[1]"),
    ("C10", "comment-with-quote-not-skipped", "pdpy11/context.py",
     """            elif self.code[self.pos] == ";":
                self.pos = self.code.find("\\n", self.pos)""",
     """            elif self.code[self.pos] == ";" and self.code[self.pos + 1:self.pos + 2] != "}":
                self.pos = self.code.find("\\n", self.pos)"""),
    ("C10", "percent-register-octal-only-0-5", "pdpy11/insns.py",
     """lambda: get_as_int(state, "register index", operand, operand.operand, bitness=3, unsigned=True)""",
     """lambda: get_as_int(state, "register index", operand, operand.operand, bitness=3, unsigned=True) % 6"""),
    ("C10", "legacy-deferred-is-mode-0", "pdpy11/insns.py",
     """                reports.warning(
                    "legacy-deferred",
                    (operand.ctx_start, operand.ctx_end, f"{operand!r} is a legacy way of spelling ({operand.operand!r}), please use the new syntax")
                )
                return 0o10 | register, b\"\"""",
     """                reports.warning(
                    "legacy-deferred",
                    (operand.ctx_start, operand.ctx_end, f"{operand!r} is a legacy way of spelling ({operand.operand!r}), please use the new syntax")
                )
                return 0o00 | register, b\"\""""),
    ("C03", "undefined-reported-at-first-attempt", "pdpy11/types.py",
     """        not_ready()
        # TODO: check if there's a local symbol with the same name defined out of scope""",
     """        # TODO: check if there's a local symbol with the same name defined out of scope"""),
    ("C03", "revert-foreign-export-wait", "pdpy11/types.py",
     """                not_ready()
                return extern""",
     """                return extern"""),
    ("C03", "shift-of-forward-symbol-not-awaited", "pdpy11/operators.py",
     """def lshift(token, a: int, b: int) -> int:
    b = wait(b)
    if b >= 0:
        return a * 2 ** b""",
     """def lshift(token, a: int, b: int) -> int:
    if isinstance(a, BaseDeferred):
        return wait(a) * 2 ** wait(b) + 1
    b = wait(b)
    if b >= 0:
        return a * 2 ** b"""),
    ("C09", "relative-displacement-absolute-leak", "pdpy11/insns.py",
     """        return 0o67, SizedDeferred[bytes](2, lambda: struct.pack("<H", wait(operand.resolve(state) - state["rel_address"] - 2) % (2 ** 16)))""",
     """        return 0o67, SizedDeferred[bytes](2, lambda: struct.pack("<H", (wait(operand.resolve(state) - state["rel_address"] - 2) + (2 if wait(state["rel_address"]) >= 0o100000 else 0)) % (2 ** 16)))"""),
    ("C09", "index-word-relative-to-base", "pdpy11/insns.py",
     """                return 0o60 | register, SizedDeferred[bytes](2, lambda: struct.pack("<H", get_as_int(state, "an index", operand, operand.lhs, bitness=16, unsigned=False)))""",
     """                return 0o60 | register, SizedDeferred[bytes](2, lambda: struct.pack("<H", (get_as_int(state, "an index", operand, operand.lhs, bitness=16, unsigned=False) - (wait(state["link_base"]["promise"]) if isinstance(operand.lhs, Symbol) else 0)) % 65536))"""),
    ("C09", "branch-word-gets-base-parity", "pdpy11/insns.py",
     """            if self.unsigned:
                return -offset // 2
            else:
                return offset // 2""",
     """            if self.unsigned:
                return -offset // 2
            else:
                return offset // 2 + (1 if wait(state["link_base"]["promise"]) == 0o40000 and offset == 0 else 0)"""),
    ("C09", "label-difference-not-cancelled", "pdpy11/deferred.py",
     """        return LinearPolynomial[int]({key: -value for key, value in self.coeffs.items()}, -self.constant_term)""",
     """        return LinearPolynomial[int]({key: -value for key, value in self.coeffs.items()}, -self.constant_term - (1 if len(self.coeffs) == 1 and self.constant_term > 0o77777 else 0))"""),
    ("C05", "and-precedence-3", "pdpy11/operators.py", '@operator("x & x", precedence=8, associativity="left")', '@operator("x & x", precedence=3, associativity="left")'),
    ("C05", "div-truncates-toward-zero", "pdpy11/operators.py", "        return a // b\n", "        return int(a / b)\n"),
    ("C05", "underscore-sign-swapped", "pdpy11/operators.py",
     "    if b >= 0:\n        return a << b\n    else:\n        return a >> -b",
     "    if b <= 0:\n        return a << -b\n    else:\n        return a >> b"),
    ("C05", "two-char-literal-big-endian", "pdpy11/types.py",
     '        self.evaluated_value = struct.unpack("<H", bytes_value)[0]',
     '        self.evaluated_value = struct.unpack(">H" if len(self.string) == 2 else "<H", bytes_value)[0]'),
    ("C05", "bare-8-9-accepted-silently", "pdpy11/types.py",
     "        if not self.reported_invalid_base8 and self.invalid_base8:", "        if False and not self.reported_invalid_base8 and self.invalid_base8:"),
    ("C05", "minus-right-associative", "pdpy11/operators.py",
     '@operator("x - x", precedence=4, associativity="left", awaited=False)', '@operator("x - x", precedence=4, associativity="right", awaited=False)'),
    ("C05", "negative-shift-only-warning", "pdpy11/operators.py",
     '        reports.error(\n            "arithmetic-error",\n            (token.ctx_start, token.ctx_end, f"Negative left shift',
     '        reports.warning(\n            "arithmetic-error",\n            (token.ctx_start, token.ctx_end, f"Negative left shift'),
    ("C05", "xor-is-or-for-large", "pdpy11/operators.py",
     "def xor(a: int, b: int) -> int:\n    return a ^ b", "def xor(a: int, b: int) -> int:\n    return a ^ b if a < 0o200000 else a | b"),
    ("C05", "rad50-literal-middle-factor", "pdpy11/radix50.py",
     "    return encode_char(a) * 1600 + encode_char(b) * 40 + encode_char(c)", "    return encode_char(a) * 1600 + encode_char(b) * 50 + encode_char(c)"),
    ("C05", "hex-digits-f-dropped", "pdpy11/parser.py", '("^X", "A hexadecimal", r"[0-9a-f]", 16)', '("^X", "A hexadecimal", r"[0-9a-e]", 16)'),
    ("C06", "limit-inclusive", "pdpy11/metacommand_impl.py", "    if value >= 2 ** bitness:", "    if value > 2 ** bitness:"),
    ("C06", "negative-limit-off", "pdpy11/metacommand_impl.py", "    if value <= -2 ** bitness:", "    if value < -2 ** bitness - 1:"),
    ("C06", "dword-word-order", "pdpy11/metacommands.py",
     'return struct.pack("<H", value >> 16) + struct.pack("<H", value & 0xffff)', 'return struct.pack("<H", value & 0xffff) + struct.pack("<H", value >> 16)'),
    ("C06", "tab-escape-is-space", "pdpy11/parser.py", '    elif char == "t":\n        return "\\t"', '    elif char == "t":\n        return " "'),
    ("C06", "odd-swapped-with-even", "pdpy11/metacommands.py",
     '    # As if that\'s any useful...\n    return b"\\x00" if wait(state["emit_address"]) % 2 == 0 else b""',
     '    # As if that\'s any useful...\n    return b"\\x00" if wait(state["emit_address"]) % 2 == 1 else b""'),
    ("C06", "blkb-minus-one-accepted", "pdpy11/metacommand_impl.py", "    if unsigned and value < 0:\n", "    if unsigned and value < -1:\n"),
    ("C06", "odd-address-only-warning", "pdpy11/metacommands.py",
     '        reports.error(\n            "odd-address",\n            (state["insn"].ctx_start, state["insn"].ctx_end, "This \'.word\' was emitted',
     '        reports.warning(\n            "odd-address",\n            (state["insn"].ctx_start, state["insn"].ctx_end, "This \'.word\' was emitted'),
    ("C06", "byte-chunk-256-accepted", "pdpy11/metacommands.py",
     'result.append(get_as_int(state, "byte character", chunk, chunk.expr, bitness=8, unsigned=True, default=0))',
     'result.append(get_as_int(state, "byte character", chunk, chunk.expr, bitness=9, unsigned=True, default=0) & 255)'),
    ("C06", "asciz-no-terminator-for-empty", "pdpy11/metacommands.py",
     '    return ascii_impl(state, ascii_text) + b"\\x00"', '    data = ascii_impl(state, ascii_text)\n    return data + b"\\x00" if data else data'),
    ("C06", "align-noop-for-multiples-of-24", "pdpy11/metacommands.py",
     '    return b"\\x00" * ((-wait(state["emit_address"])) % count)', '    return b"\\x00" * ((-wait(state["emit_address"])) % count if count % 24 else 0)'),
    ("C06", "cp866-strings-in-koi8", "pdpy11/metacommands.py",
     'chunk).encode(state["compiler"].output_charset)', 'chunk).encode(state["compiler"].output_charset if state["compiler"].output_charset != "cp866" else "koi8-r")'),
    ("C06", "slash-escape-keeps-backslash", "pdpy11/parser.py", '    elif char in "\\\\\\"\'/":\n        return char', '    elif char in "\\\\\\"\'":\n        return char\n    elif char == "/":\n        return "\\\\/"'),
    ("C11", "no-scope-bump-after-label", "pdpy11/compiler.py",
     "                    if not insn.local:\n                        local_symbol_prefix = f\".local{self.next_local_symbol_prefix}.\"\n                        self.next_local_symbol_prefix += 1",
     "                    if not insn.local and insn.name.lower() != 'beta':\n                        local_symbol_prefix = f\".local{self.next_local_symbol_prefix}.\"\n                        self.next_local_symbol_prefix += 1"),
    ("C11", "exported-before-own", "pdpy11/types.py",
     "        for name in candidates:\n            if name in compiler.symbols:\n                return compiler.symbols[name]\n\n        extern_mapping = compiler.extern_symbols_mapping.get(self.name)",
     "        if self.name in compiler.extern_symbols_mapping and compiler.extern_symbols_mapping.get(self.name)[1] in compiler.symbols:\n            return compiler.symbols[compiler.extern_symbols_mapping.get(self.name)[1]]\n        for name in candidates:\n            if name in compiler.symbols:\n                return compiler.symbols[name]\n\n        extern_mapping = compiler.extern_symbols_mapping.get(self.name)"),
    ("C11", "duplicate-export-silently-wins", "pdpy11/compiler.py",
     "        if name in self.extern_symbols_mapping:\n            previous_extern",
     "        if name in self.extern_symbols_mapping and False:\n            previous_extern"),
    ("C11", "extern-all-misses-later-symbols", "pdpy11/compiler.py",
     "            if state[\"extern_all\"]:\n                self.declare_external_symbol(state[\"extern_all\"], label.name, state)",
     "            if state[\"extern_all\"] and False:\n                self.declare_external_symbol(state[\"extern_all\"], label.name, state)"),
    ("C11", "private-symbols-leak-into-include", "pdpy11/compiler.py",
     "            \"internal_symbol_prefix\": f\".internal{self.next_internal_symbol_prefix}.\",",
     "            \"internal_symbol_prefix\": f\".internal{self.next_internal_symbol_prefix if link_base.get('set_where', 1) is not None or self.next_internal_symbol_prefix < 2 else self.next_internal_symbol_prefix - 1}.\","),
    ("C11", "duplicate-constant-silently-ignored", "pdpy11/compiler.py",
     "        if name in self.symbols:\n            prev_sym, _ = self.symbols[name]\n            reports.error(\n                \"duplicate-symbol\",\n                (insn.ctx_start, insn.ctx_end, f\"Duplicate variable",
     "        if name in self.symbols:\n            prev_sym, _ = self.symbols[name]\n            return\n            reports.error(\n                \"duplicate-symbol\",\n                (insn.ctx_start, insn.ctx_end, f\"Duplicate variable"),
    ("C11", "undefined-symbol-is-zero-warning", "pdpy11/types.py",
     "        reports.error(\n            \"undefined-symbol\",", "        reports.warning(\n            \"undefined-symbol\","),
    ("C11", "local-labels-visible-file-wide", "pdpy11/types.py",
     "        candidates = (\n            state[\"local_symbol_prefix\"] + self.name,",
     "        for key in list(compiler.symbols):\n            if key.startswith(\".local\") and key.endswith(\".\" + self.name) and self.name[0].isdigit() and (state[\"local_symbol_prefix\"] + self.name) not in compiler.symbols:\n                return compiler.symbols[key]\n        candidates = (\n            state[\"local_symbol_prefix\"] + self.name,"),
    ("C12", "default-base-2000", "pdpy11/compiler.py", 'link_base["promise"].settle(0o1000)', 'link_base["promise"].settle(0o2000)'),
    ("C12", "second-link-silently-ignored", "pdpy11/compiler.py",
     '                reports.error(\n                    "address-conflict",\n                    (state["insn"].ctx_start, state["insn"].ctx_end, "The link base has already been set."),',
     '                reports.warning(\n                    "address-conflict",\n                    (state["insn"].ctx_start, state["insn"].ctx_end, "The link base has already been set."),'),
    ("C12", "backward-skip-of-one-accepted", "pdpy11/compiler.py", "                                    if length < 0:\n", "                                    if length < -1:\n"),
    ("C12", "revert-negative-target-fix", "pdpy11/compiler.py",
     'new_addr_value = get_as_int(state, "link address", state["insn"], insn.value, bitness=16, unsigned=True)',
     'new_addr_value = get_as_int(state, "link address", state["insn"], insn.value, bitness=16, unsigned=False)'),
    ("C15", "revert-rad50-nonascii-fix", "pdpy11/metacommands.py", "if len(char.upper()) != 1 or not char.isascii():", "if len(char.upper()) != 1:"),
    ("C02", "revert-include-size-fix", "pdpy11/metacommands.py", "@metacommand\ndef include(state, included_file_path: str):", "@metacommand(size=0)\ndef include(state, included_file_path: str):"),
    ("C12", "revert-included-base-expansion-fix", "pdpy11/deferred.py",
     "                    if isinstance(key1, Promise) and key1.settled:\n", "                    if False:\n"),
    ("C12", "revert-promise-of-promise-fix", "pdpy11/deferred.py",
     "and not isinstance(key, (LinearPolynomial, Promise)):", "and not isinstance(key, LinearPolynomial):"),
    ("C12", "revert-promise-estimate-fix", "pdpy11/deferred.py",
     "            if not isinstance(value, BaseDeferred):\n                return value\n        # Not known yet",
     "            return self.value\n        # Not known yet"),
    ("C12", "self-dependent-base-assembled-as-zero", "pdpy11/compiler.py",
     '                reports.error(\n                    "recursive-definition",', '                reports.warning(\n                    "recursive-definition",'),
    ("C12", "skip-fill-not-zero", "pdpy11/compiler.py", '                                    return b"\\x00" * length', '                                    return b"\\x00" * (length - 1) + (b"\\xff" if length > 40 else b"\\x00") if length else b""'),
    ("C12", "link-expression-rounded-even", "pdpy11/compiler.py",
     '                return get_as_int(state, "link address", state["insn"], address, bitness=16, unsigned=False)\n            except DeferredCycle:',
     '                return get_as_int(state, "link address", state["insn"], address, bitness=16, unsigned=False) & ~1\n            except DeferredCycle:'),
    ("C07", "latch-only-for-critical", "pdpy11/reports.py", "    if priority in (error, critical):\n        handler.is_error_condition = True", "    if priority in (critical,):\n        handler.is_error_condition = True"),
    ("C07", "outfile-written-before-check", "pdpy11/_cli.py",
     "            comp = Compiler(output_charset=args.charset)\n            base, code = comp.compile_and_link_files(parsed_files)\n",
     "            comp = Compiler(output_charset=args.charset)\n            if args.outfile:\n                open(args.outfile, \"wb\").close()\n            base, code = comp.compile_and_link_files(parsed_files)\n"),
    ("C07", "filter-drops-errors-by-identifier", "pdpy11/reports.py",
     "        if priority is warning:\n            if identifier in self.warning_control:",
     "        if priority is warning or identifier in self.warning_control:\n            if identifier in self.warning_control:"),
    ("C07", "warning-class-raises-latch", "pdpy11/reports.py",
     "    if priority in (error, critical):\n        handler.is_error_condition = True",
     "    if priority in (error, critical) or identifier == \"legacy-deferred\":\n        handler.is_error_condition = True"),
    ("C07", "wno-all-changes-bytes", "pdpy11/metacommands.py",
     "        return b\"\\x00\"\n    return b\"\".join(struct.pack(\"<B\", operand) for operand in byte_operand)",
     "        return b\"\\x00\" if reports.handle_reports.handlers_stack[-1].obj.__class__.__name__ != \"FilterHandler\" or reports.handle_reports.handlers_stack[-1].obj.warning_control.get(\"implicit-operand\", True) else b\"\\x01\"\n    return b\"\".join(struct.pack(\"<B\", operand) for operand in byte_operand)"),
    ("C07", "graphical-format-exits-zero-on-late-error", "pdpy11/_cli.py",
     "    except reports.UnrecoverableError:\n        sys.exit(1)", "    except reports.UnrecoverableError:\n        sys.exit(1 if args.report_format == \"bare\" or not comp_done(locals()) else 0)"),
    ("C07", "listing-written-on-failure", "pdpy11/_cli.py",
     "        with reports.handle_reports(report_handler):\n            was_emitted, emitted_file = comp.emit_files(base, code)\n",
     "        if args.lst:\n            open(\"early.lst\", \"w\").write(comp.generate_listing())\n        with reports.handle_reports(report_handler):\n            was_emitted, emitted_file = comp.emit_files(base, code)\n"),
    ("C17", "tab-counts-eight", "pdpy11/context.py", "self.code[idx_line_start:self.pos].count(\"\\t\") * 3", "self.code[idx_line_start:self.pos].count(\"\\t\") * 7"),
    ("C17", "line-number-zero-based", "pdpy11/context.py", "return f\"{self.filename}:{line_no + 1}:{col_no + 1}\"", "return f\"{self.filename}:{line_no}:{col_no + 1}\""),
    ("C17", "undefined-symbol-points-at-statement", "pdpy11/types.py",
     "            \"undefined-symbol\",\n            (self.ctx_start, self.ctx_end,", "            \"undefined-symbol\",\n            (state[\"insn\"].ctx_start, self.ctx_end,"),
    ("C17", "revert-chunk-position-fix", "pdpy11/parser.py", "def angle_bracketed_char(ctx):\n    ctx.skip_whitespace()\n", "def angle_bracketed_char(ctx):\n"),
    ("C17", "included-file-errors-name-parent", "pdpy11/metacommands.py", "    file_ast = parser.parse(include_path, code)", "    file_ast = parser.parse(state[\"filename\"] if \"8\" in include_path else include_path, code)"),
    ("C17", "duplicate-symbol-points-at-first-definition", "pdpy11/compiler.py",
     "                (label.ctx_start, label.ctx_end, f\"Duplicate {'local label' if label.local else 'symbol'} '{label.name}:'\"),\n                (prev_sym.ctx_start, prev_sym.ctx_end, \"A symbol with the same name has been already declared here\")",
     "                (prev_sym.ctx_start, prev_sym.ctx_end, \"A symbol with the same name has been already declared here\"),\n                (label.ctx_start, label.ctx_end, f\"Duplicate {'local label' if label.local else 'symbol'} '{label.name}:'\")"),
    ("C19", "sort-by-name-then-value", "pdpy11/compiler.py", "labels.sort(key=lambda item: (item[1], item[0]))", "labels.sort(key=lambda item: (item[0], item[1]))"),
    ("C19", "value-not-zero-padded", "pdpy11/compiler.py", "oct(abs(value))[2:].rjust(6, \"0\")", "oct(abs(value))[2:].rjust(6)"),
    ("C19", "revert-negative-value-fix", "pdpy11/compiler.py", "(\"-\" if value < 0 else \"\") + oct(abs(value))[2:].rjust(6, \"0\")", "oct(value)[2:].rjust(6, \"0\")"),
    ("C19", "names-starting-with-q-skipped", "pdpy11/compiler.py", "                if isinstance(value, int):\n", "                if isinstance(value, int) and not name.startswith(\"q1\"):\n"),
    ("C19", "listing-beside-source-not-output", "pdpy11/_cli.py", "                lst_file = emitted_file[\"path\"]\n", "                lst_file = emitted_file[\"path\"].split(\"/\")[-1]\n"),
    ("C19", "included-symbols-under-parent-name", "pdpy11/compiler.py", "            \"filename\": file.filename,\n            \"context\": \"file\",", "            \"filename\": file.filename if \"inc8\" not in file.filename else \"f0.mac\",\n            \"context\": \"file\","),
    ("C19", "values-truncated-to-16-bits", "pdpy11/compiler.py", "                value = wait(addr)\n\n                labels_by_file", "                value = wait(addr)\n                value = value & 0o177777 if isinstance(value, int) and value > 0 else value\n\n                labels_by_file"),
]
