"""More replace-mutants (property, name, file, old, new); kept apart from mutants.py to keep quoting simple."""
EXTRA = [
    ("C02", "dword-size-2n", "pdpy11/metacommands.py",
     "@metacommand(size=lambda state, *operands: 4 * (len(operands) or 1))",
     "@metacommand(size=lambda state, *operands: 2 * (len(operands) or 1))"),
    ("C02", "wordlist-does-not-advance", "pdpy11/compiler.py",
     """                    data += chunk
                    if isinstance(chunk, BaseDeferred):
                        addr += chunk.length()
                    else:
                        addr += len(chunk)

                elif isinstance(insn, Label):""",
     """                    data += chunk

                elif isinstance(insn, Label):"""),
    ("C02", "concatenator-length-skips-bytes", "pdpy11/deferred.py",
     """            else:
                total_len += len(elem)
        return total_len""",
     """            elif len(elem) != 3:
                total_len += len(elem)
        return total_len"""),
    ("C02", "even-parity-swapped", "pdpy11/metacommands.py",
     """def even(state) -> bytes:
    return b"\\x00" if wait(state["emit_address"]) % 2 == 1 else b\"\"""",
     """def even(state) -> bytes:
    return b"\\x00" if wait(state["emit_address"]) % 2 == 0 else b\"\""""),
    ("C02", "repeat-addr-not-accumulated", "pdpy11/metacommands.py",
     """        if isinstance(chunk, BaseDeferred):
            addr += chunk.length()
        else:
            addr += len(chunk)
        result += chunk""",
     """        result += chunk"""),
    ("C02", "blkw-factor", "pdpy11/metacommands.py",
     'return b"\\x00\\x00" * blkw_count', 'return b"\\x00" * blkw_count'),
    ("C02", "skip-length-off-by-one", "pdpy11/compiler.py",
     "                                    length = new_addr_value - old_addr_value\n",
     "                                    length = new_addr_value - old_addr_value + (1 if old_addr_value % 8 == 6 else 0)\n"),
    ("C02", "label-gets-address-after-next", "pdpy11/compiler.py",
     "        self.symbols[name] = (label, addr)\n",
     "        self.symbols[name] = (label, addr + (2 if label.name.endswith('7') else 0))\n"),
    ("C02", "insert-file-drops-last-byte-when-long", "pdpy11/metacommands.py",
     """        with open(include_path, "rb") as f:
            return f.read()""",
     """        with open(include_path, "rb") as f:
            return f.read()[:255]"""),
]
