"""C03  Symbol values do not depend on definition order.

Monitor: metamorphic history checker over real runs: outcome(P) vs outcome(P') where P' differs from P only in the position of
top-level 'name = expr' definitions (moves to any other top-level position of the same file, permutations of all of them).
Status is compared as ok/fail only (diagnostic order legitimately changes); no model is involved.
"""
import glob
import os
import random
import re

PROPERTY = "C03"
LEVEL = "exploration"
RULE = ("generated programs (tight generator; constants used as immediates, indices, .blkb/.repeat counts, '. =' skips, .link, string <expr> "
        "chunks) with all movable definitions re-placed at random top-level positions, 8 (quick) / 40 (thorough) placements each; definition "
        "chains of additive depth up to 300 and non-linear depth up to 30 in shuffled order; multi-file programs with an exported name of the "
        "same spelling in another file; practice-corpus programs with their assignment lines moved; distinct = distinct (program, placement) "
        "pairs in which at least one definition is used before its new place")
ASSUMPTIONS = ["a definition is movable only if its expression mentions neither '.' nor a local label and it is not inside '.repeat'",
               "definitions are not moved across a use of the same name as an instruction name (implicit .word lookup is order-dependent by design)",
               "corpus assignment lines are recognised by a conservative regex (a line that is only 'NAME = expr ; comment'), and are moved "
               "only within the main file ahead of any .end"]
DECIDING_COUNTERS = ["programs", "placements_compared", "chain_programs", "corpus_placements_compared"]
MIN_DISTINCT = 100


def plan(tier, seed):
    n = 16 if tier == "quick" else 48
    total = 800 if tier == "quick" else 40000
    return [{"part": i, "parts": n, "seed": seed, "tier": tier, "count": total // n, "k": 8 if tier == "quick" else 40,
             "chains": 6 if tier == "quick" else 40} for i in range(n)]


def movable(st):
    from vlib import apm
    if st.k != "assign":
        return False
    return not any(x[0] in ("dot", "loc") for x in apm.walk(st.expr))


def replace_defs(prog, rnd):
    """New Program with every movable top-level definition of every file re-inserted at a random top-level position."""
    from vlib import apm
    files = []
    used_before = False
    for f in prog.files:
        defs = [s for s in f.stmts if movable(s)]
        rest = [s for s in f.stmts if not movable(s)]
        # never after '.end'
        limit = next((i for i, s in enumerate(rest) if s.k == "simple" and s.d.lower() in (".end", "end")), len(rest))
        # keep a leading '. =' / .link site leading if it is the base site ('. =' is positional)
        lo = 1 if rest and rest[0].k == "dot" else 0
        rnd.shuffle(defs)
        for d in defs:
            pos = rnd.randrange(lo, limit + 1)
            rest.insert(pos, d)
            limit += 1
        files.append(apm.SrcFile(f.name, rest))
    return apm.Program(files, prog.aux, prog.blobs, prog.charset)


def gen_chain_program(rnd, depth, nonlinear):
    """c0 = K; c(i) = f(c(i-1)); used in several positions; definitions in shuffled order."""
    from vlib import apm
    val = rnd.randrange(1, 50)
    defs = [apm.assign("ch0", apm.num(val))]
    for i in range(1, depth + 1):
        prev = ("sym", f"ch{i - 1}")
        if nonlinear:
            op = rnd.choice(["*", "/", "%", "<<", ">>", "&", "|", "^", "+"])
            k = {"*": 3, "/": 2, "%": 1000, "<<": 1, ">>": 1, "&": 0o7777, "|": 1, "^": 5, "+": 7}[op]
            e = ("bin", op, prev, apm.num(k))
        else:
            e = ("bin", rnd.choice(["+", "-"]), prev, apm.num(rnd.randrange(0, 3)))
        defs.append(apm.assign(f"ch{i}", e))
    last = ("sym", f"ch{depth}")
    small = ("bin", "&", last, apm.num(7))
    uses = [apm.link(apm.num(0o2000)),
            apm.label("start"),
            apm.insn("mov", ("imm", ("bin", "&", last, apm.num(0o77777))), ("reg", 0)),
            apm.insn("clr", ("idx", ("bin", "&", last, apm.num(0o377)), 2)),
            apm.blk(".blkb", small), apm.simple(".even"),
            apm.repeat(small, [apm.data(".word", ("bin", "&", last, apm.num(0o1777)))]),
            apm.data(".word", ("bin", "&", ("sym", f"ch{depth // 2}"), apm.num(0o177777))),
            apm.string(".ascii", [("n", ("bin", "&", last, apm.num(0o177))), ("s", "x")]), apm.simple(".even"),
            apm.label("after"), apm.data(".word", ("sym", "after"), ("sym", "start"))]
    stmts = uses + defs
    return apm.Program([apm.SrcFile("f0.mac", stmts)])


def gen_dag_program(rnd):
    """Constants whose definitions share ancestors (a = c + 1, b = c, x = a + b ...), used in sums before any of them is defined:
    the dependency graph is a DAG, not a chain, so one variable reaches a sum along several paths."""
    from vlib import apm
    n = rnd.randrange(4, 8)
    defs = [apm.assign("dg0", apm.num(rnd.randrange(1, 40)))]
    for i in range(1, n):
        a = ("sym", f"dg{rnd.randrange(i)}")
        b = ("sym", f"dg{rnd.randrange(i)}")
        form = rnd.random()
        if form < 0.25:
            e = a                                                         # alias
        elif form < 0.5:
            e = ("bin", "+", a, apm.num(rnd.randrange(0, 9)))
        elif form < 0.75:
            e = ("bin", rnd.choice(["+", "-"]), a, b)
        elif form < 0.9:
            e = ("bin", "+", ("bin", "*", apm.num(rnd.randrange(2, 4)), a), b)
        else:
            e = ("un", rnd.choice(["+", "-"]), a) if rnd.random() < 0.5 else ("grp", a)
        defs.append(apm.assign(f"dg{i}", e))

    def pick():
        return ("sym", f"dg{rnd.randrange(n)}")

    def total():
        if rnd.random() < 0.25:
            # a difference of labels (a plain number once the layout is known) times a constant that is still pending
            d = ("grp", ("bin", "-", ("sym", "after"), ("sym", "start")))
            e = ("bin", "*", d, pick()) if rnd.random() < 0.6 else ("bin", "*", pick(), d)
            return ("bin", "&", ("grp", e), apm.num(0o77777))
        e = ("bin", rnd.choice(["+", "-"]), pick(), pick())
        if rnd.random() < 0.5:
            e = ("bin", rnd.choice(["+", "-"]), e, pick())
        return ("bin", "&", ("grp", e), apm.num(0o77777))
    uses = [apm.link(apm.num(0o2000)), apm.label("start")]
    for _ in range(rnd.randrange(2, 6)):
        uses.append(rnd.choice([apm.data(".word", total()), apm.insn("mov", ("imm", total()), ("reg", rnd.randrange(6))),
                                apm.data(".word", total(), total())]))
    uses += [apm.label("after"), apm.data(".word", ("sym", "after"))]
    if rnd.random() < 0.3:
        # a definition nobody uses whose evaluation fails (division by zero, negative shift count) somewhere below a linear top:
        # wherever it stands, the build must fail
        u = pick()
        bad = rnd.choice([("bin", "%", pick(), apm.num(0)), ("bin", "/", pick(), apm.num(0)),
                          ("bin", "<<", apm.num(1), ("bin", "-", apm.num(0), ("sym", "dg0")))])
        defs.append(apm.assign("dgunused", rnd.choice([("bin", "+", u, ("grp", bad)), ("bin", "-", ("bin", "*", apm.num(2), u), ("grp", bad)), bad])))
    if rnd.random() < 0.25:
        # a count, a byte code or a skip target that comes out negative through a short chain of definitions: refused wherever they stand
        k = rnd.randrange(2, 9)
        defs += [apm.assign("ngn", apm.num(1)), apm.assign("ngm", ("bin", "+", ("sym", "ngn"), apm.num(1))), apm.assign("ngk", ("bin", "-", ("sym", "ngm"), apm.num(2 + k)))]
        uses.append(rnd.choice([apm.blk(".blkb", ("sym", "ngk")), apm.blk(".blkw", ("sym", "ngk")), apm.string(".ascii", [("s", "a"), ("n", ("sym", "ngk"))]),
                                apm.blk(".align", ("sym", "ngk")), apm.repeat(("sym", "ngk"), [apm.insn("nop")])]))
    return apm.Program([apm.SrcFile("f0.mac", uses + defs)])


ASSIGN_LINE = re.compile(r"^[ \t]*([A-Za-z_$][A-Za-z_0-9$.]*)[ \t]*=[ \t]*([^;=\n\"'/]*?)[ \t]*(;[^\n]*)?$")


def corpus_variant(text, rnd):
    """Move assignment lines (whose expression mentions neither '.' nor digits-only local labels) to other line positions
    of the same file, ahead of any '.end', never between a line and its continuation."""
    lines = text.split("\n")
    end = next((i for i, l in enumerate(lines) if re.match(r"^\s*\.?end\b", l, re.I)), len(lines))
    brace = 0
    movable_idx = []
    safe_slots = []
    for i, l in enumerate(lines[:end]):
        code = l.split(";")[0]
        after = brace + code.count("{") - code.count("}")
        nxt = next((x.strip() for x in lines[i + 1:end] if x.strip()), "")
        if brace == 0 and after == 0 and code.strip() and not code.rstrip().endswith(("+", "-", "*", ",", "(")) and not nxt.startswith("{") \
                and ".repeat" not in code.lower():
            safe_slots.append(i + 1)
        m = ASSIGN_LINE.match(l)
        if m and brace == 0 and "." not in re.sub(r"[A-Za-z_0-9$.]*[A-Za-z_0-9$]|\d+\.", "", m.group(2)) and m.group(2).strip() and \
                not re.search(r"(?<![A-Za-z_$.0-9])\d+\$", m.group(2)):
            movable_idx.append(i)
        brace += code.count("{") - code.count("}")
    if not movable_idx or not safe_slots:
        return None
    chosen = rnd.sample(movable_idx, min(len(movable_idx), rnd.randrange(1, 6)))
    moved = [lines[i] for i in chosen]
    keep = [(i, l) for i, l in enumerate(lines) if i not in chosen]
    out = [l for _, l in keep]
    # map old slot positions to new indices
    for m in moved:
        slot = rnd.choice(safe_slots)
        pos = sum(1 for i, _ in keep if i < slot)
        out.insert(min(pos, len(out)), m)
        keep.insert(min(pos, len(keep)), (slot - 0.5, m))
    return "\n".join(out)


def run_shard(spec):
    import shutil
    import tempfile
    from vlib import apm, tight
    rnd = random.Random(spec["seed"] * 715225739 + spec["part"])
    res = {"evaluations": 0, "distinct": [], "counters": {k: 0 for k in DECIDING_COUNTERS}, "sets": {"chain_depths": []},
           "samples": [], "violations": [], "inconclusive": []}
    cnt = res["counters"]
    root = tempfile.mkdtemp(prefix="c03-", dir=os.getcwd())
    try:
        for i in range(spec["count"]):
            # the output charset decides how many bytes a string has (and so where everything after it lies), whenever it is evaluated
            prog, ref, info = tight.gen_program(rnd, opts={"include": False, "insert": False}, charset=rnd.choice(["bk", "bk", "utf-8", "utf-8", "koi8-r", "cp1251", "cp866"]))
            # an exported name of the same spelling in another file: the file's own later definition must win
            if len(prog.files) > 1 and rnd.random() < 0.5:
                prog.files[0].stmts.append(apm.assign("samename", apm.num(rnd.randrange(1, 100)), extern=True))
                prog.files[1].stmts.insert(0, apm.data(".word", ("sym", "samename")))
                prog.files[1].stmts.append(apm.assign("samename", apm.num(rnd.randrange(100, 200))))
            case = {"kind": "gen", "prog": apm.to_json(prog), "seed": rnd.randrange(1 << 30), "k": spec["k"]}
            vs, nd = run_case(case, cnt, root)
            res["violations"].extend(vs)
            res["evaluations"] += 1
            cnt["programs"] += 1
            res["distinct"].extend(f"{spec['part']}|{i}|{j}" for j in range(nd))
            if i < 1:
                res["samples"].append({"original": apm.r_file(prog.files[0]).splitlines()[:12],
                                       "re-placed": apm.r_file(replace_defs(prog, random.Random(1)).files[0]).splitlines()[:12]})
        for j in range(spec["chains"]):
            nonlinear = j % 2 == 1
            depth = rnd.choice([5, 30]) if nonlinear else rnd.choice([10, 100, 300])
            prog = gen_chain_program(rnd, depth, nonlinear)
            case = {"kind": "chain", "prog": apm.to_json(prog), "seed": rnd.randrange(1 << 30), "k": 4}
            vs, nd = run_case(case, cnt, root)
            res["violations"].extend(vs)
            res["evaluations"] += 1
            cnt["chain_programs"] += 1
            res["sets"]["chain_depths"].append(f"{'nonlinear' if nonlinear else 'additive'}:{depth}")
            res["distinct"].extend(f"chain|{spec['part']}|{j}|{q}" for q in range(nd))
        for j in range(spec["chains"] * 8):
            prog = gen_dag_program(rnd)
            case = {"kind": "gen", "prog": apm.to_json(prog), "seed": rnd.randrange(1 << 30), "k": 8, "caseflip": rnd.random() < 0.5}
            vs, nd = run_case(case, cnt, root)
            res["violations"].extend(vs)
            res["evaluations"] += 1
            cnt["dag_programs"] = cnt.get("dag_programs", 0) + 1
            res["distinct"].extend(f"dag|{spec['part']}|{j}|{q}" for q in range(nd))
        if spec["part"] == 0:
            # listed finding: a statement that consists of one bare name is an implicit '.word name' only if the name is ALREADY defined as
            # a constant at that point; with the definition further down the same line is an unknown instruction
            for nm, val in (("x", 5), ("count", 0o177777), ("a.b", 7)):
                case = {"kind": "bare", "early": f"{nm} = {val}\n{nm}\n.word 1\n", "late": f"{nm}\n.word 1\n{nm} = {val}\n"}
                vs, nd = run_case(case, cnt, root)
                res["violations"].extend(vs)
                res["evaluations"] += 1
        repo = os.environ.get("VERIF_REPO", "/repo")
        dirs = sorted(glob.glob(os.path.join(repo, "tests", "practice", "*", "")))
        for j, d in enumerate(dirs):
            if j % spec["parts"] != spec["part"]:
                continue
            case = {"kind": "corpus", "dir": os.path.relpath(d, repo), "seed": rnd.randrange(1 << 30), "k": 3 if spec["tier"] == "quick" else 10}
            vs, nd = run_case(case, cnt, root)
            res["violations"].extend(vs)
            res["evaluations"] += 1
            res["distinct"].extend(f"corpus|{case['dir']}|{q}" for q in range(nd))
    finally:
        shutil.rmtree(root, ignore_errors=True)
    return res


def run_case(case, cnt=None, root=None):
    import shutil
    import tempfile
    from vlib import apm, asm, meta
    if cnt is None:
        cnt = {}
    for k in DECIDING_COUNTERS:
        cnt.setdefault(k, 0)
    own = root is None
    if own:
        root = tempfile.mkdtemp(prefix="c03-", dir=os.getcwd())
    out = []
    nd = 0
    srnd = random.Random(case.get("seed", 0))
    try:
        if case["kind"] == "bare":
            oe = asm.assemble([(os.path.join(root, "bare.mac"), case["early"])], wall=60)
            ol = asm.assemble([(os.path.join(root, "bare.mac"), case["late"])], wall=60)
            cnt["placements_compared"] += 1
            if meta.observable(oe) != meta.observable(ol):
                out.append({"what": f"a bare-name statement: definition first gives {meta.describe(oe)}, definition last gives {meta.describe(ol)} "
                                    f"({[e['id'] for e in ol.errors][:2]}); sources {case['early']!r} / {case['late']!r}", "case": case,
                            "known_key": "bare-name-statement" if (oe.cls == "ok" and ol.cls == "fail" and "unknown-insn" in [e["id"] for e in ol.errors]) else None})
                if out[-1]["known_key"] is None:
                    del out[-1]["known_key"]
            return (out, 1) if not own else out
        if case["kind"] in ("gen", "chain"):
            prog = apm.from_json(case["prog"])

            def style():
                # every occurrence of a name in its own letter case (names are case-insensitive), when the case asks for it
                if not case.get("caseflip"):
                    return apm.PLAIN
                return apm.Style(random.Random(srnd.randrange(1 << 30)), case=0.5, radix=0.0, brackets=0.0, ws=0.0)
            o0, t0 = meta.assemble_prog(prog, root, style(), wall=240)
            if o0.cls == "stall":
                return (out, 0) if not own else out
            obs0 = meta.observable(o0)
            for j in range(case["k"]):
                var = replace_defs(prog, srnd)
                if case["kind"] == "chain" and j < 2:
                    # the two extreme orders: every definition ahead of the one it refers to (nothing can be evaluated until the
                    # last line), after the uses (j = 0) or before them (j = 1)
                    f = prog.files[0]
                    defs = [st for st in f.stmts if movable(st)][::-1]
                    rest = [st for st in f.stmts if not movable(st)]
                    var = apm.Program([apm.SrcFile(f.name, (rest + defs) if j == 0 else (rest[:1] + defs + rest[1:]))], prog.aux, prog.blobs, prog.charset)
                o, t = meta.assemble_prog(var, root, style(), wall=240)
                if t == t0 or o.cls == "stall":
                    continue
                nd += 1
                cnt["placements_compared"] += 1
                if meta.observable(o) != obs0:
                    v = {"what": f"moving definitions changed the result: original {meta.describe(o0)} ({o0.exc_type or ''}), re-placed {meta.describe(o)} ({o.exc_type or ''}); "
                                 f"re-placed source: {' | '.join(l.strip() for l in list(t.values())[0].splitlines()[:16])}"[:1500],
                         "case": dict(case, variant=j)}
                    if meta.known_cycle(o, t) or meta.known_cycle(o0, t0):
                        cnt["excluded_known_cycle"] = cnt.get("excluded_known_cycle", 0) + 1     # listed C08 finding, not judged here
                        continue
                    out.append(v)
                    break
        else:
            repo = os.environ.get("VERIF_REPO", "/repo")
            work = tempfile.mkdtemp(prefix="corp-", dir=root)
            shutil.copytree(os.path.join(repo, case["dir"]), os.path.join(work, "p"))
            main = os.path.join(work, "p", "code.mac")
            with open(main, encoding="utf-8") as f:
                text = f.read()
            o0 = asm.assemble([(main, text)], wall=300)
            obs0 = meta.observable(o0)
            for j in range(case["k"]):
                t = corpus_variant(text, srnd)
                if t is None or t == text:
                    continue
                o = asm.assemble([(main, t)], wall=300)
                if "stall" in (o.cls, o0.cls):
                    continue
                nd += 1
                cnt["corpus_placements_compared"] += 1
                if meta.observable(o) != obs0:
                    la, lb = text.split("\n"), t.split("\n")
                    moved = [l for l in lb if lb.count(l) != la.count(l) or True][:0]
                    out.append({"what": f"practice program {case['dir']}: moving assignment lines changed the result: {meta.describe(o0)} vs {meta.describe(o)}; "
                                        f"errors {[(e['id'], e['spans'][0]['rs'].split('/')[-1]) for e in o.errors[:3]]}", "case": dict(case, variant=j)})
                    break
            shutil.rmtree(work, ignore_errors=True)
    finally:
        if own:
            shutil.rmtree(root, ignore_errors=True)
    return (out, nd) if not own else out
