"""C05  Expression values follow the documented arithmetic.

Monitor: reference evaluator (unbounded Python ints, floor / and %, own precedence table, left associativity) on the generator's
expression tree; the renderer prints the tree with only the brackets that table requires (plus random redundant ones in the three
bracket styles) so that a precedence, associativity, radix or operator change in the assembler changes the emitted value.
Observation: '.dword <expr>' / '.word <expr>' bytes of the real assembler; expressions the rules reject (bare 8/9 digits, /0, %0,
negative shift counts, |v| >= 2^32) must fail the build with the matching error.
"""
import os
import random

PROPERTY = "C05"
LEVEL = "exploration"
RULE = ("random expression trees to depth 6 over all 12 infix and 4 prefix operators, every literal spelling (bare octal, N., 0x/0o/0b, "
        "^X/^O/^B/^D, 'c, \"cc, ^R), all three bracket styles, operands constant / symbolic (defined before or after) / address-valued (label, "
        "'.', label-label, 2*label); 40 expressions per program; rejected expressions one per program; distinct = distinct expression shapes "
        "of depth >= 2")
ASSUMPTIONS = ["shift counts are kept within -40..40 so that values stay small (huge values are the C08 finding astronomic-integer)",
               "'_' is always written with spaces around it (a_1 is an identifier by the documented lexical rule)"]
DECIDING_COUNTERS = ["expressions_evaluated", "values_compared", "rejections_expected", "rejections_confirmed"]
MIN_DISTINCT = 500

CHARS = "abcdefghijklmnopqrstuvwxyzABCDEFGHIJKLMNOPQRSTUVWXYZ0123456789!#$%&*+,-.:<=>?@[]^_{|}~ " + "яЖюЯабвг" * 3     # bytes >= 0x80 under bk too
R50 = "ABCDEFGHIJKLMNOPQRSTUVWXYZ$.%0123456789"


def plan(tier, seed):
    n = 16 if tier == "quick" else 48
    total = 20000 if tier == "quick" else 600000
    return [{"part": i, "parts": n, "seed": seed, "tier": tier, "count": total // n} for i in range(n)]


def gen_leaf(rnd, env):
    from vlib import apm
    r = rnd.random()
    if r < 0.40:
        v = rnd.choice([0, 1, 2, 3, 5, 7, 8, 10, 15, 16, 0o77, 0o100, 255, 256, 0o7777, 0o100000, 0o177777, 0o200000, rnd.randrange(0, 1 << 16),
                        rnd.randrange(0, 1 << 24), rnd.randrange(0, 1 << 31)])
        if rnd.random() < 0.15:
            v = -v
        return apm.num(v, rnd.choice([None, None, "d", "x", "0o", "b", "^X", "^O", "^B", "^D"]))
    if r < 0.55:
        return ("sym", rnd.choice(env["consts"]))
    if r < 0.58:
        return ("sym", rnd.choice(env["aliases"]))
    if r < 0.62:
        return ("sym", rnd.choice(env["derived"]))
    if r < 0.72:
        return ("sym", rnd.choice(env["labels"]))
    if r < 0.78:
        return ("dot",)
    if r < 0.84:
        a, b = rnd.choice(env["labels"]), rnd.choice(env["labels"])
        return ("grp", ("bin", "-", ("sym", a), ("sym", b)))
    if r < 0.90:
        return ("chr", rnd.choice(CHARS) if rnd.random() < 0.5 else rnd.choice(CHARS) + rnd.choice(CHARS))
    if r < 0.95:
        return ("r50", "".join(rnd.choice(R50) for _ in range(rnd.randrange(1, 4))))
    return ("loc", rnd.choice(env["locals"]))


def gen_expr(rnd, env, depth):
    from vlib import apm
    if depth <= 0 or rnd.random() < 0.15:
        return gen_leaf(rnd, env)
    r = rnd.random()
    if rnd.random() < 0.06:
        # the same name several times in one additive chain: x + x, 2*x + x, x - x + k ... (x any kind of symbol)
        x = ("sym", rnd.choice(env["derived"] + env["derived"] + env["consts"] + env["aliases"] + env["labels"]))
        k = apm.num(rnd.randrange(0, 50))
        return rnd.choice([("bin", "+", x, x), ("bin", "+", ("bin", "*", apm.num(rnd.randrange(2, 6)), x), x), ("bin", "+", ("bin", "-", x, x), k),
                           ("bin", "+", ("bin", "+", x, x), x), ("bin", "-", ("bin", "+", k, x), x), ("bin", "-", ("bin", "+", x, k), ("grp", ("bin", "-", k, x))),
                           ("bin", "+", ("bin", "+", x, gen_leaf(rnd, env)), x), ("bin", "-", ("bin", "*", x, apm.num(3)), x)])
    if r < 0.2:
        return ("un", rnd.choice(apm.UNARY), gen_expr(rnd, env, depth - 1))
    if r < 0.25:
        return ("grp", gen_expr(rnd, env, depth - 1))
    op = rnd.choice(apm.INFIX)
    lhs = gen_expr(rnd, env, depth - 1)
    if op in ("<<", ">>", "_"):
        k = rnd.choice([0, 1, 2, 3, 4, 7, 8, 15, 16, 17, 31, 32, 40, 63, 64, 65, 70, 100, 128]) * (1 if (op == "_" and rnd.random() < 0.5) or rnd.random() < 0.97 else -1)
        if op == "_" and rnd.random() < 0.4:
            k = -abs(k)
        rhs = apm.num(k, rnd.choice([None, "d"])) if rnd.random() < 0.8 else ("sym", rnd.choice(env["shifts"]))
        return ("bin", op, lhs, rhs)
    rhs = gen_expr(rnd, env, depth - 1)
    if rnd.random() < 0.04:
        # a wide intermediate that is brought back into range: arithmetic is unbounded, only the final value has to fit
        w = rnd.choice([64, 65, 70, 100])
        return ("bin", rnd.choice([">>", "/"]), ("grp", ("bin", "<<", ("grp", lhs), apm.num(w, "d"))),
                apm.num(w - rnd.randrange(0, 4), "d") if rnd.random() < 0.5 else ("grp", ("bin", "<<", apm.num(1), apm.num(w - rnd.randrange(0, 4), "d"))))
    return ("bin", op, lhs, rhs)


def build_env(rnd):
    """Statement skeleton: labels at known places, constants defined before and after, local labels in the scope of the probes."""
    from vlib import apm
    env = {"consts": [f"kc{i}" for i in range(8)], "labels": ["la0", "la1", "la2"], "locals": ["1$", "7$"], "shifts": ["sh0", "sh1", "sh2"],
           # address-valued constants: a chain al2 -> al1 -> al0 -> la2 whose definitions may come before their targets exist
           "aliases": ["al0", "al1", "al2"], "alias_k": [rnd.randrange(0, 9) for _ in range(3)],
           # constants whose value is not known when they are defined (and may still be unknown when they are used): defined through a
           # constant that is defined at the very end (kc7), through a non-linear function of an address, through each other
           "derived": ["dk0", "dk1", "dk2"], "derived_k": [rnd.randrange(0, 9) for _ in range(3)]}
    # the output charset gives character literals their value
    env["charset"] = rnd.choice(["bk"] * 5 + ["koi8-r", "cp1251", "cp866", "utf-8", "latin-1", "cp500", "cp037", "utf-16-le", "utf-16", "cp1026"])
    values = {}
    for c in env["consts"]:
        values[c] = rnd.choice([0, 1, 2, 3, 5, 64, 255, 1000, 0o177777, 1 << 20, rnd.randrange(0, 1 << 16), -rnd.randrange(1, 1000)])
    for i, c in enumerate(env["shifts"]):
        values[c] = [1, 5, 16][i]
    env["values"] = values
    return env


def build_program(rnd, env, exprs, directive=".dword", repeated=(), indexed=()):
    from vlib import apm
    base = rnd.choice([0o1000, 0, 0o2000, 0o100000, 0o40000])
    before = [apm.assign(c, apm.num(v)) for c, v in env["values"].items() if rnd.random() < 0.5 and c != "kc7"]
    names_before = {s.name for s in before}
    after = [apm.assign(c, apm.num(v)) for c, v in env["values"].items() if c not in names_before]
    k = env["alias_k"]
    alias_defs = [apm.assign("al0", ("bin", "+", ("sym", "la2"), apm.num(k[0]))), apm.assign("al1", ("bin", "+", ("sym", "al0"), apm.num(k[1]))),
                  apm.assign("al2", ("bin", "+", ("sym", "al1"), apm.num(k[2])))]
    dk = env["derived_k"]
    derived_defs = [apm.assign("dk0", ("bin", "+", ("sym", "kc7"), apm.num(dk[0]))), apm.assign("dk1", ("bin", "/", ("sym", "la2"), apm.num(dk[1] + 2))),
                    apm.assign("dk2", ("bin", "+", ("bin", "*", ("sym", "dk0"), apm.num(dk[2])), ("sym", "dk1")))]
    rnd.shuffle(derived_defs)
    before = derived_defs + before
    order = rnd.choice(["top", "top-reversed", "bottom", "bottom-reversed"])
    if "reversed" in order:
        alias_defs.reverse()
    if order.startswith("top"):
        before = alias_defs + before
    stmts = [apm.link(apm.num(base))] + before + [apm.label("la0"), apm.label("1$"), apm.data(".word", apm.num(1))]
    half = len(exprs) // 2
    for e in exprs[:half]:
        stmts.append(apm.data(directive, e))
    stmts += [apm.label("7$"), apm.blk(".blkb", apm.num(2 * rnd.randrange(0, 20)))]
    for e in exprs[half:]:
        stmts.append(apm.data(directive, e))
    for e in indexed:
        # the expression as the (unbracketed) offset of an index operand: the register belongs to the whole expression
        stmts.append(apm.insn(rnd.choice(["mov", "cmp", "bis"]), (rnd.choice(["idx", "idx", "idxd"]), e, rnd.randrange(6)), ("reg", rnd.randrange(6))))
    for e in repeated:
        # the expression in every copy of a repeat body, as an implicit word list or an explicit '.word': '.' differs from copy to copy
        masked = ("bin", "&", ("grp", e), apm.num(0o177777))
        if rnd.random() < 0.6:
            op, k = rnd.choice([("/", 2), ("/", 3), ("%", 7), (">>", 1), ("<<", 1), ("*", 3)])
            masked = ("bin", "&", ("grp", ("bin", op, ("grp", ("bin", "+", ("grp", ("bin", "&", ("grp", e), apm.num(0o7777))), ("dot",))), apm.num(k))), apm.num(0o177777))
        body = [rnd.choice([apm.wordlist, lambda *a: apm.data(".word", *a)])(apm.num(rnd.randrange(0x10000)), masked)]
        if rnd.random() < 0.4:
            body.append(apm.data(".byte", apm.num(1), apm.num(2)))
        stmts.append(apm.repeat(apm.num(rnd.choice([2, 3, 4])), body))
    # la1 / la2 must be in another local scope only after the probes: put them at the end (ordinary labels end the scope)
    stmts += [apm.label("la1"), apm.data(".word", apm.num(2)), apm.label("la2")] + after
    if order.startswith("bottom"):
        stmts += alias_defs
    return apm.Program([apm.SrcFile("f0.mac", stmts)], charset=env.get("charset", "bk"))


def classify(prog):
    """Reference verdict of a one-expression program: ('ok', None) or ('reject', ident)."""
    from vlib import apm
    try:
        apm.Ref(prog).run()
        return "ok", None
    except apm.RefError as ex:
        return "reject", ex.ident
    except apm.Unmodelled:
        return "unmodelled", None


def run_shard(spec):
    import shutil
    import tempfile
    from vlib import apm
    rnd = random.Random(spec["seed"] * 256203221 + spec["part"])
    res = {"evaluations": 0, "distinct": [], "counters": {k: 0 for k in DECIDING_COUNTERS}, "sets": {"operators": [], "literal_kinds": [], "rejection_kinds": []},
           "samples": [], "violations": [], "inconclusive": []}
    cnt = res["counters"]
    cnt["programs"] = 0
    root = tempfile.mkdtemp(prefix="c05-", dir=os.getcwd())
    try:
        done = 0
        first = True
        while done < spec["count"]:
            env = build_env(rnd)
            good, bad = [], []
            for _ in range(40):
                e = gen_expr(rnd, env, rnd.randrange(1, 7))
                verdict, _ident = classify(build_program(random.Random(1), env, [e]))
                (good if verdict == "ok" else bad if verdict == "reject" else []).append(e)
            style_seed = rnd.randrange(1 << 30)
            cases = [{"kind": "batch", "prog": apm.to_json(build_program(rnd, env, good)), "style_seed": style_seed}] if good else []
            plain = [e for e in good if not any(x[0] == "loc" for x in apm.walk(e))]
            if plain:
                rp = build_program(rnd, env, [], repeated=rnd.sample(plain, min(len(plain), 6)))
                if classify(rp)[0] == "ok":
                    cases.append({"kind": "batch", "prog": apm.to_json(rp), "style_seed": style_seed})
                    cnt["repeat_batches"] = cnt.get("repeat_batches", 0) + 1
            def spine(d):
                # a chain of + - * that nests to the RIGHT (a + b*c, a - b + c*d ...): written without brackets in front of '(rN)'
                left = rnd.choice([apm.num(rnd.randrange(0, 64)), ("sym", rnd.choice(env["consts"])), ("sym", rnd.choice(env["labels"]))] +
                                  ([("grp", rnd.choice(plain))] if plain else []))
                if d <= 0:
                    return rnd.choice([apm.num(rnd.randrange(0, 9)), ("sym", rnd.choice(env["shifts"]))])
                return ("bin", rnd.choice(["+", "-", "*", "+"]), left, spine(d - 1))
            nested = [e for e in plain if e[0] == "bin" and apm.depth(e) >= 2] + [spine(rnd.randrange(2, 5)) for _ in range(6)]
            for e in rnd.sample(nested, min(len(nested), 6)):
                ip = build_program(rnd, env, [], indexed=[e])
                if classify(ip)[0] == "ok":
                    cases.append({"kind": "batch", "prog": apm.to_json(ip), "style_seed": 0, "plainstyle": True})
                    cnt["index_operand_expressions"] = cnt.get("index_operand_expressions", 0) + 1
            for e in bad[:6]:
                cases.append({"kind": "reject", "prog": apm.to_json(build_program(rnd, env, [e], rnd.choice([".dword", ".word"]))), "style_seed": style_seed})
            # the explicit rejection rules of the statement
            if rnd.random() < 0.3:
                raw, want = rnd.choice([(".word 19", "invalid-number"), (".dword 8", "invalid-number"), (".word 1 + 29", "invalid-number"), (".word -9", "invalid-number"),
                                        (".word 5 / 0", "arithmetic-error"), (".word 5 % 0", "arithmetic-error"), (".word 7 / (3 - 3)", "arithmetic-error"),
                                        (".word 1 << k", "arithmetic-error"), (".word 1 >> k", "arithmetic-error"), (".dword 1 << (0 - 1)", "arithmetic-error"),
                                        (".word kc1 / (kc1 - kc1)", "arithmetic-error"), (".dword 4294967296.", "value-out-of-bounds"),
                                        (".dword 0 - 4294967296.", "value-out-of-bounds"), (".word 1 << 16.", "value-out-of-bounds"), (".word 0x1f8", None), (".word 0o17", None)])
                if want:
                    cases.append({"kind": "rawreject", "text": raw + "\nk = 0 - 2\nkc1 = 7\n", "want": want})
            for case in cases:
                vs = run_case(case, cnt, root)
                res["violations"].extend(vs)
            res["evaluations"] += len(good) + len(bad[:6])
            done += len(good) + len(bad[:6])
            cnt["programs"] += len(cases)
            for e in good + bad:
                if apm.depth(e) >= 2:
                    res["distinct"].append(apm.shape(e))
                for x in apm.walk(e):
                    if x[0] in ("bin", "un"):
                        res["sets"]["operators"].append(x[0] + x[1])
                    elif x[0] == "num":
                        res["sets"]["literal_kinds"].append("num:" + str(x[2]))
                    else:
                        res["sets"]["literal_kinds"].append(x[0])
            if first and good:
                first = False
                st = apm.Style.random(random.Random(style_seed), 0.6)
                res["samples"].append({"expressions": [apm.r_expr(e, st) for e in good[:6]], "rejected": [apm.r_expr(e) for e in bad[:3]]})
    finally:
        shutil.rmtree(root, ignore_errors=True)
    return res


def run_case(case, cnt=None, root=None):
    import shutil
    import tempfile
    from vlib import apm, asm, refcheck
    if cnt is None:
        cnt = {}
    for k in DECIDING_COUNTERS:
        cnt.setdefault(k, 0)
    own = root is None
    if own:
        root = tempfile.mkdtemp(prefix="c05-", dir=os.getcwd())
    out = []
    try:
        if case["kind"] == "rawreject":
            o = asm.assemble([(os.path.join(root, "raw.mac"), case["text"])])
            cnt["rejections_expected"] += 1
            if o.cls != "fail":
                out.append({"what": f"{case['text'].splitlines()[0]!r} must be rejected ({case['want']}), outcome {o.cls} {o.exc_type or ''} code {o.code.hex() if o.code else ''}", "case": case})
            elif case["want"] not in o.ids("error"):
                out.append({"what": f"{case['text'].splitlines()[0]!r} rejected without {case['want']}: {o.ids('error')}", "case": case})
            else:
                cnt["rejections_confirmed"] += 1
            return out
        prog = apm.from_json(case["prog"])
        srnd = random.Random(case["style_seed"])
        style = apm.Style(srnd, case=srnd.choice([0, 0.5]), radix=0.0, brackets=srnd.choice([0, 0.3, 0.6]) if not case.get("plainstyle") else 0.0, ws=srnd.choice([0, 0.3]),
                          bracket_kinds=srnd.choice([("(",), ("<",), ("(", "<", "^"), ("^",)]) if not case.get("plainstyle") else ("<",))
        c = {}
        verdict, msgs, o, texts = refcheck.run_prog_case(prog, root, c, style=style)
        nexpr = sum(1 for s in prog.files[0].stmts if s.k == "data" and s.d in (".dword", ".word") and s.exprs and s.exprs[0][0] != "num" or
                    (s.k == "data" and s.d == ".dword"))
        cnt["expressions_evaluated"] += nexpr
        if case["kind"] == "reject":
            cnt["rejections_expected"] += 1
            if verdict == "agree":
                cnt["rejections_confirmed"] += 1
        else:
            if verdict == "agree":
                cnt["values_compared"] += c.get("data_statements_compared", 0)
        if verdict == "violation" and case["kind"] == "batch" and o.cls == "fail" and o.errors and msgs and msgs[0].startswith("rejected, but without"):
            # a batch in which the final layout made more than one expression invalid: the assembler stops at the first eagerly
            # detected one, the reference names the first in source order.  Both reject; which diagnostic comes first is not the property.
            verdict = "agree"
        if verdict == "violation":
            v = {"what": "expression value: " + "; ".join(msgs)[:1200], "case": case}
            if o.cls == "ok" and msgs and msgs[0].startswith("the reference rejects this program"):
                # listed finding: an erroneous operand of '*' whose co-factor is zero is never evaluated (the zero-coefficient term is
                # dropped from the polynomial), so its error is not reported.  Recognised by the mechanism: the reference told to skip
                # exactly those operands accepts the program and yields the assembler's bytes.
                apm.ZERO_PRODUCT_SKIPS = True
                try:
                    v2, m2 = refcheck.compare(prog, o, {})
                finally:
                    apm.ZERO_PRODUCT_SKIPS = False
                if v2 == "agree":
                    v["known_key"] = "zero-product-unevaluated"
            out.append(v)
        elif verdict == "unmodelled":
            out.append({"what": f"generator left the modelled fragment: {msgs}", "case": case})
        return out
    finally:
        if own:
            shutil.rmtree(root, ignore_errors=True)
