"""C04  Branches and PC-relative operands hit their target or are rejected.

Monitors: (A) one-branch programs for every branch mnemonic x byte offset, the distance realised by filler, by '.+-k'
arithmetic, by label arithmetic and by local labels; outcome classifier (accept iff in reach and even; rejection must be an
error naming the branch statement) + independent decoder computing the effective target from the emitted displacement.
(B) programs full of relative / relative-deferred operands in first/second position after 0 or 1 extension words with
targets anywhere in the 64 KiB space (wrap-around included); decoder recomputes the effective address.
"""
import random

PROPERTY = "C04"
LEVEL = "exploration"
RULE = ("(A) exhaustive over branch mnemonic x offset: br, bne, sob every offset (-300..+300, sob -140..+6), the other 15 branch "
        "mnemonics the 18 offsets around the limits (thorough: every offset for all 17), each realised 1-4 ways; (B) generated programs "
        "of relative operands (label, label+-k, .+-k, local labels, absolute numbers) at bases incl. 0o157776/0o170000 so that "
        "displacements wrap; distinct = distinct (mnemonic, offset, realisation) and (operand position, preceding extension words, target shape)")
ASSUMPTIONS = ["numeric operands of branches are local labels by documented design; the generator writes numbers there only in spellings that cannot be labels",
               "relative targets are kept inside 0..0o177777 (an 'address' outside the address space has no meaning the statement fixes)"]
DECIDING_COUNTERS = ["branch_programs", "branches_accepted_decoded", "branches_rejected_confirmed", "relative_operands_decoded"]
MIN_DISTINCT = 500

BOUNDARY = [-300, -258, -257, -256, -255, -254, -2, -1, 0, 1, 2, 252, 253, 254, 255, 256, 257, 300]
BASES = [0o1000, 0, 0o100000, 0o157776, 0o170000, 0o77776, 0o2]


def plan(tier, seed):
    n = 16 if tier == "quick" else 48
    return [{"part": i, "parts": n, "seed": seed, "tier": tier} for i in range(n)]


def branch_cases(tier):
    from vlib import pdp11_ref
    cases = []
    for name in sorted(pdp11_ref.BRANCHES):
        full = tier == "thorough" or name in ("br", "bne")
        for d in (range(-300, 301) if full else BOUNDARY):
            cases.append((name, d))
    for d in range(-140, 7):
        cases.append(("sob", d))
    return cases


def realisations(d):
    r = ["dot", "labelarith"]
    if d >= 0 or d <= -2:
        r += ["filler", "local", "localarith"]
    return r


def build_branch(name, d, how, base, rnd):
    """Program with one branch whose target is (address of the branch + 2 + d)."""
    from vlib import apm
    stmts = [apm.link(apm.num(base))]
    pre = rnd.choice([0, 2, 4, 6, 10, 64, 300, 600])
    if pre:
        stmts.append(apm.blk(".blkb", apm.num(pre)))
    if rnd.random() < 0.25:
        # the branch itself at an odd address: what decides is the DISTANCE, not the parity of either end
        stmts.append(apm.data(".byte", apm.num(0o252)))
    stmts.append(apm.label("anchor"))
    ops = [("reg", rnd.randrange(8))] if name == "sob" else []

    def dotexpr(k):
        if k >= 0:
            return ("bin", "+", ("dot",), apm.num(k, rnd.choice(["d", "d", "^O", "^X"])))
        return ("bin", "-", ("dot",), apm.num(-k, rnd.choice(["d", "d", "^O", "^X"])))

    br_index = None
    if how == "dot":
        br_index = len(stmts)
        stmts.append(apm.insn(name, *ops, ("br", dotexpr(d + 2))))
        stmts.append(apm.blk(".blkb", apm.num(max(0, d + 2))))
    elif how == "labelarith":
        # anchor is at the branch itself: target = anchor + (d + 2)
        k = d + 2
        e = ("bin", "+", ("sym", "anchor"), apm.num(k, "d")) if k >= 0 else ("bin", "-", ("sym", "anchor"), apm.num(-k, "d"))
        br_index = len(stmts)
        stmts.append(apm.insn(name, *ops, ("br", e)))
        stmts.append(apm.blk(".blkb", apm.num(max(0, d + 2))))
    elif how in ("filler", "local"):
        lab = "target" if how == "filler" else rnd.choice(["1$", "7$", "12", "3", "100$", "8", "9", "18", "89", "98$", "19"])
        ref = ("sym", lab) if how == "filler" else ("loc", lab)
        if d >= 0:
            br_index = len(stmts)
            stmts.append(apm.insn(name, *ops, ("br", ref)))
            if d:
                stmts.append(apm.blk(".blkb", apm.num(d)))
            stmts.append(apm.label(lab))
            stmts.append(apm.data(".byte", apm.num(0)))
        else:
            if d % 2:
                stmts.append(apm.data(".byte", apm.num(0)))    # odd distance: the label is odd, the branch stays even
            stmts.append(apm.label(lab))
            fill = -d - 2
            if fill:
                stmts.append(apm.blk(".blkb", apm.num(fill)))
            br_index = len(stmts)
            stmts.append(apm.insn(name, *ops, ("br", ref)))
    elif how == "localarith":
        # 'br 12+4': the first number of a compound branch operand is a local label (documented compatibility rule), the rest are numbers
        lab = rnd.choice(["12", "10", "17", "100", "3", "7$", "77", "1", "18", "9", "8$", "90"])
        if d >= 0:
            k = 2 * rnd.randrange(0, min(d, 12) // 2 + 1)
            br_index = len(stmts)
            e = ("bin", "+", ("loc", lab), apm.num(k, rnd.choice([None, "d"])))
            stmts.append(apm.insn(name, *ops, ("br", e)))
            if d - k:
                stmts.append(apm.blk(".blkb", apm.num(d - k)))
            stmts.append(apm.label(lab))
            stmts.append(apm.blk(".blkb", apm.num(k + 1)))
        else:
            fill = -d - 2
            k = 2 * rnd.randrange(0, min(fill, 12) // 2 + 1)
            if d % 2:
                stmts.append(apm.data(".byte", apm.num(0)))
            if k:
                stmts.append(apm.blk(".blkb", apm.num(k)))      # the target is the first of these bytes
            stmts.append(apm.label(lab))
            if fill - k:
                stmts.append(apm.blk(".blkb", apm.num(fill - k)))
            br_index = len(stmts)
            e = ("bin", "-", ("loc", lab), apm.num(k, rnd.choice([None, "d"])))
            stmts.append(apm.insn(name, *ops, ("br", e)))
    if how == "local" and d < 0:
        # the local label must be in the same scope as the branch: 'anchor' (an ordinary label) precedes both -> fine
        pass
    return apm.Program([apm.SrcFile("/c04/main.mac", stmts)]), br_index


def gen_relative_program(rnd, base):
    from vlib import apm
    stmts = [apm.link(apm.num(base))]
    link_last = rnd.random() < 0.3        # the base is stated after all the code: every address is symbolic while the operands are encoded
    nlab = rnd.randrange(2, 7)
    labels = [f"l{i}" for i in range(nlab)]
    body = []
    tags = []
    # interleave labels, local labels, filler and instructions
    positions = sorted(rnd.sample(range(30), nlab))
    li = 0
    local_names = ["1$", "2$", "15$"]
    for i in range(30):
        if li < nlab and positions[li] == i:
            body.append(apm.label(labels[li]))
            li += 1
            # local labels defined right after an ordinary label, referenced only until the next one
            if rnd.random() < 0.6:
                body.append(("LOCALSCOPE", None))
        roll = rnd.random()
        if roll < 0.07 and not link_last:
            # a forward skip: the statement right after it is the first one at the new address
            body.append(apm.dotassign(("bin", "+", ("dot",), apm.num(2 * rnd.randrange(0, 40), rnd.choice([None, "d"])))))
        elif roll < 0.2:
            body.append(apm.blk(".blkb", apm.num(2 * rnd.randrange(0, 40))))
        elif roll < 0.3:
            # (an operand-less '.word' / '.dword' is one zero word / two: its size does not depend on when it can be evaluated)
            body.append(apm.data(".word", apm.num(rnd.randrange(0x10000))) if rnd.random() < 0.7 else apm.data(rnd.choice([".word", ".dword"])))
        else:
            body.append(("INSN", None))
    # resolve scopes: split into segments by ordinary labels
    out = []
    scope_locals = []
    pending_local_def = None
    for item in body:
        if isinstance(item, tuple) and item[0] == "LOCALSCOPE":
            nm = rnd.choice(local_names)
            scope_locals = [nm]
            pending_local_def = (nm, rnd.random() < 0.5)   # define now (backward refs) or later (forward refs)
            if pending_local_def[1]:
                out.append(apm.label(nm))
                pending_local_def = None
            continue
        if isinstance(item, tuple) and item[0] == "INSN":
            def target():
                shape = rnd.choice(["label", "label+k", "label-k", "dot+k", "dot-k", "abs", "abs", "local", "dotcalc"] if scope_locals else
                                   ["label", "label+k", "label-k", "dot+k", "dot-k", "abs", "abs", "dotcalc", "labelcalc"])
                if shape == "dotcalc":
                    # the statement's own address through operators whose value the assembler caches on the operator token
                    inner = rnd.choice([("bin", "*", ("bin", "/", ("dot",), apm.num(2)), apm.num(2)),
                                        ("bin", "-", ("dot",), ("bin", "%", ("dot",), apm.num(2))),
                                        ("grp", ("bin", "<<", ("grp", ("bin", ">>", ("dot",), apm.num(1))), apm.num(1)))])
                    return shape, ("bin", "+", inner, apm.num(rnd.randrange(0, 300), "d"))
                if shape == "labelcalc":
                    return shape, ("bin", "+", ("bin", "*", ("bin", "/", ("sym", rnd.choice(labels)), apm.num(2)), apm.num(2)), apm.num(2 * rnd.randrange(0, 60), "d"))
                if shape == "label":
                    return shape, ("sym", rnd.choice(labels))
                if shape == "label+k":
                    return shape, ("bin", "+", ("sym", rnd.choice(labels)), apm.num(rnd.randrange(0, 200), rnd.choice([None, "d"])))
                if shape == "label-k":
                    k = rnd.randrange(0, 200)
                    if base < 400:
                        return "label+k", ("bin", "+", ("sym", rnd.choice(labels)), apm.num(k))
                    return shape, ("bin", "-", ("sym", rnd.choice(labels)), apm.num(k, rnd.choice([None, "d"])))
                if shape == "dot+k":
                    return shape, ("bin", "+", ("dot",), apm.num(rnd.randrange(0, 400), "d"))
                if shape == "dot-k":
                    if base < 600:
                        return "dot+k", ("bin", "+", ("dot",), apm.num(rnd.randrange(0, 400), "d"))
                    return shape, ("bin", "-", ("dot",), apm.num(rnd.randrange(0, 400), "d"))
                if shape == "local":
                    return shape, ("loc", scope_locals[0])
                return shape, apm.num(rnd.choice([0, 0, 2, 4, 0o177776, 0o177777, 0o100000, rnd.randrange(0x10000)]), rnd.choice([None, "d", "x"]))
            form = rnd.choice(["clr x", "mov #1,x", "mov x,y", "mov 2(r0),@x", "jmp @x", "mov x,r1", "ldf x,ac1", "cmp @x,@y", "jsr pc,x", "mul x,r2", "mov @#a,x"])
            k = "rel"
            t1s, t1 = target()
            t2s, t2 = target()
            if form == "clr x":
                st = apm.insn("clr", ("rel", t1)); tag = f"pos0|ext0|{t1s}"
            elif form == "mov #1,x":
                st = apm.insn("mov", ("imm", apm.num(rnd.randrange(100))), ("rel", t1)); tag = f"pos1|ext1|{t1s}"
            elif form == "mov x,y":
                st = apm.insn("mov", ("rel", t1), ("rel", t2)); tag = f"pos0+1|ext1|{t1s}|{t2s}"
            elif form == "mov 2(r0),@x":
                st = apm.insn("mov", ("idx", apm.num(2), rnd.randrange(7)), ("reld", t1)); tag = f"pos1d|ext1|{t1s}"
            elif form == "jmp @x":
                st = apm.insn("jmp", ("reld", t1)); tag = f"pos0d|ext0|{t1s}"
            elif form == "mov x,r1":
                st = apm.insn("mov", ("rel", t1), ("reg", 1)); tag = f"pos0|ext0|{t1s}"
            elif form == "ldf x,ac1":
                st = apm.insn("ldf", ("rel", t1), ("acc", 1)); tag = f"fp0|ext0|{t1s}"
            elif form == "cmp @x,@y":
                st = apm.insn("cmp", ("reld", t1), ("reld", t2)); tag = f"pos0d+1d|ext1|{t1s}|{t2s}"
            elif form == "jsr pc,x":
                st = apm.insn("jsr", ("reg", 7), ("rel", t1)); tag = f"pos1|ext0|{t1s}"
            elif form == "mul x,r2":
                st = apm.insn("mul", ("rel", t1), ("reg", 2)); tag = f"pos0|ext0|{t1s}"
            else:
                st = apm.insn("mov", ("abs", apm.num(rnd.randrange(0x10000))), ("rel", t1)); tag = f"pos1|ext1abs|{t1s}"
            if rnd.random() < (0.5 if "dotcalc" in (t1s, t2s) else 0.15) and "local" not in (t1s, t2s):
                # copies of the statement: each one is at its own address, so each displacement differs
                body = [st] + ([apm.data(".word", apm.num(rnd.randrange(0x10000)))] if rnd.random() < 0.5 else [])
                st = apm.repeat(apm.num(rnd.choice([2, 3, 5])), body)
                tag += "|repeated"
            out.append(st)
            tags.append(tag)
            if scope_locals and rnd.random() < 0.25:
                # an exported constant in the middle of a local-label block: an assignment is no label, the block goes on
                out.append(apm.assign(f"gq{len(out)}", apm.num(rnd.randrange(0x10000)), extern=rnd.random() < 0.8))
                tags[-1] += "|assign-in-local-block"
            continue
        # an ordinary label ends the local scope
        if item.k == "nop" and item.labels and item.labels[0][1] == "label":
            if pending_local_def:
                out.append(apm.label(pending_local_def[0]))
                pending_local_def = None
            scope_locals = []
        out.append(item)
    if pending_local_def:
        out.append(apm.label(pending_local_def[0]))
    stmts += out
    if link_last:
        stmts.append(stmts.pop(0))
    return apm.Program([apm.SrcFile("/c04/main.mac", stmts)]), tags


def gen_include_program(rnd, base):
    """(C) an included file in the middle of the including one: branches, sob and relative operands inside the included file aim at
    exported labels of the including file (before and after the include) and the including file aims at the included file's."""
    from vlib import apm
    tags = []

    def operand(names):
        t = rnd.choice(names)
        shape = rnd.choice(["label", "label", "label+k"])
        return shape, (("sym", t) if shape == "label" else ("bin", "+", ("sym", t), apm.num(2 * rnd.randrange(0, 8))))

    def body(names, where, n, back=None):
        out = []
        for _ in range(n):
            roll = rnd.random()
            if roll < 0.25:
                nm = rnd.choice(["br", "bne", "bcs", "bge"])
                out.append(apm.insn(nm, ("br", ("sym", rnd.choice(names)))))
                tags.append(f"{where}|branch")
            elif roll < 0.32 and back:
                out.append(apm.insn("sob", ("reg", rnd.randrange(6)), ("br", ("sym", rnd.choice(back)))))
                tags.append(f"{where}|sob")
            elif roll < 0.5:
                sh, e = operand(names)
                out.append(apm.insn("clr", ("rel", e))); tags.append(f"{where}|pos0|ext0|{sh}")
            elif roll < 0.65:
                sh, e = operand(names)
                out.append(apm.insn("mov", ("imm", apm.num(rnd.randrange(100))), ("reld", e))); tags.append(f"{where}|pos1d|ext1|{sh}")
            elif roll < 0.8:
                sh, e = operand(names)
                sh2, e2 = operand(names)
                out.append(apm.insn("cmp", ("rel", e), ("rel", e2))); tags.append(f"{where}|pos0+1|ext1|{sh}|{sh2}")
            elif roll < 0.9:
                sh, e = operand(names)
                out.append(apm.insn("jmp", ("reld", e))); tags.append(f"{where}|pos0d|ext0|{sh}")
            else:
                out.append(apm.data(".word", ("sym", rnd.choice(names))))
            if rnd.random() < 0.15 and out[-1].k == "insn":
                out[-1] = apm.repeat(apm.num(rnd.choice([2, 3, 4])), [out[-1]] + ([apm.insn("nop")] if rnd.random() < 0.5 else []))
                tags[-1] += "|repeated"
        return out

    outer = ["ga", "gb", "gc"]
    inner = ["ia", "ib"]
    inc = [apm.label("ia", extern=True)] + body(outer, "inc>host", rnd.randrange(1, 5), back=["ga", "ia"]) + \
          [apm.label("ib", extern=True)] + body(outer + inner, "inc>any", rnd.randrange(0, 4), back=["ga", "ia", "ib"])
    pre = 2 * rnd.randrange(1, 40)
    site = rnd.choice(["first", "last", "none"])      # where the base becomes known: at once, after everything, or never stated (default 1000)
    main = ([apm.link(apm.num(base))] if site == "first" else []) + [apm.blk(".blkb", apm.num(pre)), apm.label("ga", extern=True)]
    main += body(outer + inner, "host>any", rnd.randrange(0, 4), back=["ga"])
    main += [apm.label("gb", extern=True)]
    loc = rnd.random() < 0.5
    if loc:
        # a local label of the including file ahead of the include; the included file has a local label of the same name; after the
        # include the scope of 'gb' goes on: plain and repeated references to 7$ mean the one before the include
        main += [apm.label("7$"), apm.insn("nop")]
        inc[1:1] = [apm.label("7$"), apm.insn("nop")]
    main += [apm.include("inc.mac")]
    if loc:
        for _ in range(rnd.randrange(1, 4)):
            st = rnd.choice([apm.insn(rnd.choice(["br", "bne"]), ("br", ("loc", "7$"))), apm.insn("clr", ("rel", ("loc", "7$"))),
                             apm.insn("sob", ("reg", rnd.randrange(6)), ("br", ("loc", "7$"))), apm.insn("jmp", ("reld", ("loc", "7$")))])
            if rnd.random() < 0.6:
                st = apm.repeat(apm.num(rnd.choice([2, 3])), [st] + ([apm.insn("nop")] if rnd.random() < 0.5 else []))
            main.append(st)
            tags.append("host>local-before-include" + ("|repeated" if st.k == "repeat" else ""))
    main += body(outer + inner, "host>any", rnd.randrange(0, 4), back=["ga", "gb", "ia", "ib"])
    main += [apm.label("gc", extern=True), apm.data(".word", apm.num(0))]
    aux2 = {}
    if rnd.random() < 0.4:
        # a small file with private labels, included from two places: each inclusion is a compilation of its own at its own address;
        # its operands go through operators whose value depends on that address
        e1 = ("bin", "*", ("bin", "/", ("sym", "twl"), apm.num(2)), apm.num(2))
        e2 = ("bin", "+", ("bin", "<<", ("bin", ">>", ("dot",), apm.num(1)), apm.num(1)), apm.num(2 * rnd.randrange(1, 4)))
        body2 = [apm.label("twl"), apm.data(".word", apm.num(5)), apm.insn("mov", ("rel", e1), ("reg", rnd.randrange(6))), apm.insn("clr", ("reld", e1)),
                 apm.insn(rnd.choice(["br", "bne"]), ("br", e2)), apm.insn("nop"), apm.insn("nop"), apm.insn("nop"),
                 apm.insn("cmp", ("rel", ("bin", "+", ("bin", "%", ("sym", "twl"), apm.num(0o1000)), ("bin", "-", ("sym", "twl"), ("bin", "%", ("sym", "twl"), apm.num(0o1000))))), ("reg", 1))]
        aux2["tw4.mac"] = apm.SrcFile("tw4.mac", body2)
        main += [apm.include("tw4.mac"), apm.blk(".blkb", apm.num(2 * rnd.randrange(0, 20))), apm.include("tw4.mac")]
        tags.append("include-twice|impure-operators")
    if site == "last":
        main.append(apm.link(apm.num(base)))
    tags = [f"{t}|link-{site}" for t in tags]
    return apm.Program([apm.SrcFile("main.mac", main)], aux=dict(aux2, **{"inc.mac": apm.SrcFile("inc.mac", inc)})), tags


def gen_multifile_program(rnd, base):
    """(F) three or four linked files that refer to each other's exported labels through branches (when in reach), relative and
    relative-deferred operands and address words: every file starts where the previous one ended."""
    from vlib import apm
    n = rnd.choice([3, 3, 4])
    tags = []
    names = [f"gf{i}" for i in range(n)]
    files = []
    for i in range(n):
        st = [apm.label(names[i], extern=True), apm.insn("nop")]
        for _ in range(rnd.randrange(1, 5)):
            t = ("sym", rnd.choice(names))
            form = rnd.choice(["rel", "reld", "word", "jsr", "br", "bare"])
            if form == "rel":
                st.append(apm.insn("mov", ("rel", t), ("reg", rnd.randrange(6)))); tags.append(f"multifile{n}|rel")
            elif form == "reld":
                st.append(apm.insn("jmp", ("reld", t))); tags.append(f"multifile{n}|reld")
            elif form == "jsr":
                st.append(apm.insn("jsr", ("reg", 7), ("rel", ("bin", "+", t, apm.num(2))))); tags.append(f"multifile{n}|rel+k")
            elif form == "br":
                st.append(apm.insn(rnd.choice(["br", "bne"]), ("br", t))); tags.append(f"multifile{n}|branch")
            elif form == "bare":
                st.append(apm.data(rnd.choice([".word", ".dword"])))
            else:
                st.append(apm.data(".word", t))
        st.append(apm.blk(".blkb", apm.num(2 * rnd.randrange(0, 12))))
        files.append(apm.SrcFile(f"f{i}.mac", st))
    site = rnd.choice(["first", "last", "none", "middle"])
    if site == "first":
        files[0].stmts.insert(0, apm.link(apm.num(base)))
    elif site == "last":
        files[-1].stmts.append(apm.link(apm.num(base)))
    elif site == "middle":
        files[1].stmts.insert(rnd.randrange(len(files[1].stmts) + 1), apm.link(apm.num(base)))
    return apm.Program(files), [f"{t}|link-{site}" for t in tags]


def gen_shadow_program(rnd, base):
    """(D) two linked files; the later one has a private label with the name an earlier file exports, and branches / relative
    operands that name it BEFORE its own definition: they mean the file's own label."""
    from vlib import apm
    tags = []
    name = rnd.choice(["done", "loop", "exit9"])
    lib = [apm.label("libtop", extern=True), apm.insn("nop"), apm.blk(".blkb", apm.num(2 * rnd.randrange(0, 20))), apm.label(name, extern=True), apm.insn("nop"),
           apm.data(".word", ("sym", name))]
    main = [apm.label("maintop"), apm.insn("nop")]
    for _ in range(rnd.randrange(1, 5)):
        form = rnd.choice(["br", "sob", "rel", "reld", "word"])
        if form == "br":
            main.append(apm.insn(rnd.choice(["br", "beq", "bne"]), ("br", ("sym", name)))); tags.append("shadow|branch-fwd")
        elif form == "sob":
            main.append(apm.insn("sob", ("reg", 1), ("br", ("sym", "maintop")))); tags.append("shadow|sob-back")
        elif form == "rel":
            main.append(apm.insn("mov", ("rel", ("sym", name)), ("reg", 2))); tags.append("shadow|rel-fwd")
        elif form == "reld":
            main.append(apm.insn("jmp", ("reld", ("sym", name)))); tags.append("shadow|reld-fwd")
        else:
            main.append(apm.data(".word", ("sym", "libtop")))
    main += [apm.blk(".blkb", apm.num(2 * rnd.randrange(0, 30))), apm.label(name), apm.insn("nop"),
             apm.insn("br", ("br", ("sym", name))), apm.insn("mov", ("rel", ("sym", name)), ("reg", 3))]
    tags += ["shadow|branch-back", "shadow|rel-back"]
    files = [apm.SrcFile("lib.mac", lib), apm.SrcFile("main.mac", main)]
    site = rnd.choice(["first", "last", "none"])
    if site == "first":
        files[0].stmts.insert(0, apm.link(apm.num(base)))
    elif site == "last":
        files[1].stmts.append(apm.link(apm.num(base)))
    return apm.Program(files), [f"{t}|link-{site}" for t in tags]


def run_shard(spec):
    from vlib import apm, refcheck
    rnd = random.Random(spec["seed"] * 32452843 + spec["part"])
    res = {"evaluations": 0, "distinct": [], "counters": {k: 0 for k in DECIDING_COUNTERS}, "sets": {"realisations": [], "rel_shapes": []},
           "samples": [], "violations": [], "inconclusive": []}
    cnt = res["counters"]
    cases = branch_cases(spec["tier"])
    random.Random(spec["seed"] + 5).shuffle(cases)
    mine = cases[spec["part"]::spec["parts"]]
    for i, (name, d) in enumerate(mine):
        hows = realisations(d)
        if spec["tier"] == "quick":
            hows = [hows[(i + k) % len(hows)] for k in range(2)]
        for how in hows:
            base = rnd.choice(BASES)
            prog, br_index = build_branch(name, d, how, base, rnd)
            case = {"kind": "branch", "prog": apm.to_json(prog), "name": name, "d": d, "how": how, "br_index": br_index}
            res["violations"].extend(run_case(case, cnt))
            res["evaluations"] += 1
            res["distinct"].append(f"{name}|{d}|{how}")
            res["sets"]["realisations"].append(how)
            if i < 2 and how == hows[0]:
                res["samples"].append({"name": name, "offset": d, "how": how, "text": refcheck.render_all(prog)["/c04/main.mac"].splitlines()})
    nrel = (1200 if spec["tier"] == "quick" else 30000) // spec["parts"]
    for i in range(nrel):
        base = rnd.choice(BASES)
        prog, tags = gen_relative_program(rnd, base)
        case = {"kind": "rel", "prog": apm.to_json(prog)}
        res["violations"].extend(run_case(case, cnt))
        res["evaluations"] += 1
        res["distinct"].extend(tags)
        res["sets"]["rel_shapes"].extend(tags)
        if i < 1:
            res["samples"].append({"kind": "rel", "text": refcheck.render_all(prog)["/c04/main.mac"].splitlines()[:14]})
    for i in range(max(4, nrel // 10)):
        # (E) the last instruction of the address space: its displacement word ends at 0o177777, the PC it is relative to is 0o200000
        pre = 2 * rnd.randrange(0, 30)
        tgt = apm.num(rnd.choice([0, 0, 2, 4, 0o100, 0o177776]), rnd.choice([None, "d"]))
        form = rnd.choice(["tst", "mov-imm", "jmp-d", "mov-mov"])
        last = {"tst": apm.insn("tst", ("rel", tgt)), "mov-imm": apm.insn("mov", ("imm", apm.num(0o123)), ("rel", tgt)),
                "jmp-d": apm.insn("jmp", ("reld", tgt)), "mov-mov": apm.insn("mov", ("rel", tgt), ("rel", apm.num(2)))}[form]
        size = {"tst": 4, "mov-imm": 6, "jmp-d": 4, "mov-mov": 6}[form]
        prog = apm.Program([apm.SrcFile("/c04/main.mac", [apm.link(apm.num(0x10000 - pre - size)), apm.blk(".blkb", apm.num(pre)), last])])
        case = {"kind": "rel", "prog": apm.to_json(prog)}
        res["violations"].extend(run_case(case, cnt))
        res["evaluations"] += 1
        res["distinct"].append(f"top-of-memory|{form}")
        res["sets"]["rel_shapes"].append(f"top-of-memory|{form}")
    for i in range(nrel // 4):
        prog, tags = gen_multifile_program(rnd, rnd.choice(BASES))
        case = {"kind": "inc", "prog": apm.to_json(prog)}
        res["violations"].extend(run_case(case, cnt))
        res["evaluations"] += 1
        res["distinct"].extend(tags)
        res["sets"]["rel_shapes"].extend(tags)
    for i in range(nrel // 4):
        prog, tags = gen_shadow_program(rnd, rnd.choice(BASES))
        case = {"kind": "inc", "prog": apm.to_json(prog)}
        res["violations"].extend(run_case(case, cnt))
        res["evaluations"] += 1
        res["distinct"].extend(tags)
        res["sets"]["rel_shapes"].extend(tags)
    for i in range(nrel // 3):
        base = rnd.choice(BASES)
        prog, tags = gen_include_program(rnd, base)
        case = {"kind": "inc", "prog": apm.to_json(prog)}
        res["violations"].extend(run_case(case, cnt))
        res["evaluations"] += 1
        res["distinct"].extend(tags)
        res["sets"]["rel_shapes"].extend(tags)
        if i < 1:
            t = refcheck.render_all(prog)
            res["samples"].append({"kind": "inc", "main": t["main.mac"].splitlines()[:14], "inc": t["inc.mac"].splitlines()[:10]})
    return res


def run_case(case, cnt=None):
    from vlib import apm, asm, refcheck
    if cnt is None:
        cnt = {}
    out = []

    def viol(what):
        out.append({"what": what, "case": case})

    apm.ODD_INSN_OK = True
    prog = apm.from_json(case["prog"])
    if case["kind"] == "inc":
        import os
        c = {}
        verdict, msgs, o, texts = refcheck.run_prog_case(prog, os.getcwd(), c, wall=60)
        cnt["include_programs"] = cnt.get("include_programs", 0) + 1
        if verdict == "violation":
            viol("relative operands / branches across files: " + "; ".join(msgs) + " || " + " || ".join(f"{n}: " + " | ".join(t.splitlines()) for n, t in texts.items()))
        elif verdict == "unmodelled":
            viol(f"include program left the modelled fragment: {msgs}")
        elif verdict == "agree" and o.cls == "ok":
            cnt["relative_operands_decoded"] = cnt.get("relative_operands_decoded", 0) + c.get("insn_statements_decoded", 0)
            cnt["include_programs_decoded"] = cnt.get("include_programs_decoded", 0) + 1
        elif verdict == "agree":
            cnt["include_programs_rejected_by_both"] = cnt.get("include_programs_rejected_by_both", 0) + 1
        return out
    texts = refcheck.render_all(prog)
    files = [(f.name, texts[f.name]) for f in prog.files]
    o = asm.assemble(files, wall=60)
    c = {}
    verdict, msgs = refcheck.compare(prog, o, c)
    if case["kind"] == "branch":
        cnt["branch_programs"] = cnt.get("branch_programs", 0) + 1
        name, d = case["name"], case["d"]
        lo, hi = (-126, 0) if name == "sob" else (-256, 254)
        legal = lo <= d <= hi and d % 2 == 0
        label = f"{name} offset {d} ({case['how']})"
        if verdict == "unmodelled":
            viol(f"{label}: generator left the modelled fragment: {msgs}")
            return out
        if verdict == "violation":
            viol(f"{label}: " + "; ".join(msgs))
            return out
        if verdict == "stall":
            return out
        # verdict agree: cross-check the accept/reject expectation computed here independently of the reference run
        if legal and o.cls != "ok":
            viol(f"{label}: in-reach even target rejected")
        elif not legal and o.cls == "ok":
            viol(f"{label}: target out of reach or at an odd distance was accepted (wrapped/truncated?)")
        elif legal:
            cnt["branches_accepted_decoded"] = cnt.get("branches_accepted_decoded", 0) + c.get("insn_statements_decoded", 0)
        else:
            cnt["branches_rejected_confirmed"] = cnt.get("branches_rejected_confirmed", 0) + 1
            # the same text once more in this process: a rejection does not wear off
            o_again = asm.assemble(files, wall=60)
            if o_again.cls not in ("fail", "stall"):
                viol(f"{label}: rejected the first time, but the very same source assembled again in the same process gives {o_again.cls}")
            cnt["rejections_repeated"] = cnt.get("rejections_repeated", 0) + 1
            errs = o.errors
            bad_ids = [e["id"] for e in errs if e["id"] not in ("branch-out-of-bounds", "odd-branch")]
            if bad_ids:
                viol(f"{label}: rejection carries unrelated errors {bad_ids}")
            # the first position of every error must be on the branch statement's line
            line_no = case["br_index"] + 1
            for e in errs:
                rs = e["spans"][0]["rs"] if e["spans"] else ""
                if f":{line_no}:" not in rs:
                    viol(f"{label}: error {e['id']} points at {rs}, the branch is on line {line_no}")
    else:
        if verdict == "violation":
            viol("relative operands: " + "; ".join(msgs))
        elif verdict == "unmodelled":
            viol(f"relative program left the modelled fragment: {msgs}")
        elif verdict == "agree":
            cnt["relative_operands_decoded"] = cnt.get("relative_operands_decoded", 0) + c.get("insn_statements_decoded", 0)
    return out
