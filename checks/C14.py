"""C14  The BK charset is a bijection consistent with ASCII and KOI-8.

Monitor: contract check of the registered 'bk' codec against the interpreter's own
'ascii' and 'koi8_r' codecs (independent references) and a frozen copy of the
pseudographics column; an assembly-level leg drives '.ascii' / 'c / "cc through the
real assembler and watches the outcome class and the emitted bytes.
"""
import random

PROPERTY = "C14"
LEVEL = "exploration"
RULE = ("exhaustive: 256 bytes (decode->encode), 65536 BMP code points + astral sample (encode accept/reject, "
        "error position), random mixed strings (first offending index), and '.ascii'/'c/\"cc programs through the "
        "real assembler; distinct = distinct code points and distinct strings exercised")
ASSUMPTIONS = [
    "bytes 0x7F-0xBF have no independent reference in this sandbox: compared against a frozen transcription (change detector)",
    "'¤' is the documented second spelling of byte 0x24; the bijection demanded is byte -> char -> byte",
]
DECIDING_COUNTERS = ["bytes_roundtrip", "codepoints_checked", "strings_checked", "asm_programs"]

from vlib.bk_frozen import FROZEN_7F_BF


def plan(tier, seed):
    n = 4 if tier == "quick" else 16
    return [{"part": i, "parts": n, "seed": seed, "tier": tier} for i in range(n)]


def reference_table():
    tab = {}
    for b in range(0x7F):
        tab[b] = bytes([b]).decode("ascii")
    for i, ch in enumerate(FROZEN_7F_BF):
        tab[0x7F + i] = ch
    for b in range(0xC0, 0x100):
        tab[b] = bytes([b]).decode("koi8_r")
    return tab


def run_shard(spec):
    from vlib import asm  # noqa: F401  (registers the codec through pdpy11)
    rnd = random.Random(spec["seed"] * 1000 + spec["part"])
    res = {"evaluations": 0, "distinct": [], "counters": {}, "sets": {}, "samples": [], "violations": [], "inconclusive": []}
    cnt = res["counters"]
    for k in DECIDING_COUNTERS + ["error_positions_checked", "asm_rejections_seen", "asm_bytes_compared"]:
        cnt[k] = 0
    ref = reference_table()
    ref_chars = {ch: b for b, ch in ref.items()}
    ref_chars.setdefault("¤", 0x24)

    def viol(what, case):
        res["violations"].append({"what": what, "case": case})

    part, parts = spec["part"], spec["parts"]
    # --- 1. bytes (every shard does all 256, it is cheap; only shard 0 counts them)
    if part == 0:
        for b in range(256):
            for v in run_case({"kind": "byte", "b": b}):
                res["violations"].append(v)
            cnt["bytes_roundtrip"] += 1
            res["evaluations"] += 1
            res["distinct"].append(f"b{b}")
        res["samples"].append({"kind": "byte", "b": 0xA2, "decoded": bytes([0xA2]).decode("bk")})
    else:
        cnt["bytes_roundtrip"] += 0
    # --- 2. code points, split over shards
    cps = list(range(part, 0x10000, parts))
    astral = [rnd.randrange(0x10000, 0x110000) for _ in range(400 if spec["tier"] == "quick" else 4000)]
    for cp in cps + astral:
        if 0xD800 <= cp < 0xE000:
            continue
        ch = chr(cp)
        exp = ref_chars.get(ch)
        try:
            got = ch.encode("bk")
            if exp is None:
                viol(f"U+{cp:04X} is outside the BK table but encodes to {got!r}", {"kind": "cp", "cp": cp})
            elif got != bytes([exp]):
                viol(f"U+{cp:04X} encodes to {got!r}, reference byte {exp:#x}", {"kind": "cp", "cp": cp})
        except UnicodeEncodeError as ex:
            if exp is not None:
                viol(f"U+{cp:04X} is in the BK table (byte {exp:#x}) but is refused", {"kind": "cp", "cp": cp})
            elif ex.start != 0:
                viol(f"U+{cp:04X}: error names position {ex.start}, expected 0", {"kind": "cp", "cp": cp})
        except Exception as ex:  # pylint: disable=broad-except
            viol(f"U+{cp:04X}: encode raised {type(ex).__name__}: {ex} instead of an encoding error", {"kind": "cp", "cp": cp})
        cnt["codepoints_checked"] += 1
        res["evaluations"] += 1
    res["distinct"].append(f"cp-part{part}:{len(cps)}")
    res["distinct"].extend(f"cp{cp}" for cp in cps[:: max(1, len(cps) // 50)])
    # --- 3. random mixed strings
    good = [c for c in ref_chars]
    nstr = (3000 if spec["tier"] == "quick" else 40000) // parts
    for i in range(nstr):
        n = rnd.randrange(1, 30)
        s = []
        for _ in range(n):
            if rnd.random() < 0.15:
                cp = rnd.choice([rnd.randrange(0x100, 0x3000), rnd.randrange(0xA0, 0x100), rnd.randrange(0x10000, 0x20000), 0x20AC])
                s.append(chr(cp))
            else:
                s.append(rnd.choice(good))
        s = "".join(s)
        case = {"kind": "str", "s": s}
        vs = run_case(case)
        res["violations"].extend(vs)
        cnt["strings_checked"] += 1
        if any(c not in ref_chars for c in s):
            cnt["error_positions_checked"] += 1
        res["evaluations"] += 1
        res["distinct"].append("s" + s)
        if i < 2:
            res["samples"].append(case)
    # --- 3b. a '\x' escape takes the two characters right after it: nothing in between may be skipped (text that vanished
    #         could not be refused)
    if part == 0:
        for src in ['.ascii "a\\x 41"\n', '.ascii "\\x;∀∀\n41"\n', ".word '\\x 41\n", '.ascii "\\x\t41"\n', '.asciz "\\x\n4 1"\n', '.ascii "\\x ; c\n41" "é"\n',
                    '.word "\\x 41\\x 42\n',
                    # ... and they are the ASCII hex digits: decimal digits of other scripts are characters outside the table
                    '.ascii "\\x٤١"\n', '.ascii "\\x４１"\n', '.ascii "a\\x4１b"\n', ".word '\\x६५\n"]:
            case = {"kind": "xgap", "src": src}
            res["violations"].extend(run_case(case, cnt))
            res["evaluations"] += 1
            res["distinct"].append("xgap" + src)
    # --- 4. assembly-level leg
    nasm = (800 if spec["tier"] == "quick" else 12000) // parts + 1
    for i in range(nasm):
        mode = rnd.choice(["ascii_ok", "ascii_bad", "char_ok", "char_bad", "dchar_ok", "dchar_bad", "asciz_ok", "tape_ok", "tape_bad"])
        pool = [c for c in good if c not in "\"\\'/\n\r\t<" and c != "¤"]
        if mode.endswith("_ok"):
            chars = [rnd.choice(pool) for _ in range(rnd.randrange(1, 12))]
        else:
            chars = [rnd.choice(pool) for _ in range(rnd.randrange(1, 12))]
            bad = chr(rnd.choice([0x20AC, rnd.randrange(0x100, 0x2000), rnd.randrange(0xA0, 0xC0), rnd.randrange(0x3000, 0xD000), 0x7F, 0x7F, 0xA0, 0xFF,
                                  0xFEFF, 0xFEFF, 0x200B, 0xFFFE, 0x2060, 0x2028, 0x2029, 0x2028]))
            while bad in ref_chars:
                bad = chr(rnd.randrange(0x100, 0x2000))
            if rnd.random() < 0.3:
                # characters (and base + combining mark sequences) that Unicode normalisation, case mapping or compatibility folding
                # would turn into a table character: they are not in the table themselves
                pools = [pl for pl in _foldable(ref_chars) if pl]
                bad = rnd.choice(rnd.choice(pools))
            chars[rnd.randrange(len(chars))] = bad
        if mode.startswith("tape"):
            # a tape name is table text like any other, its last characters included: blank-like table characters keep their own byte,
            # blank-like characters outside the table are refused
            chars = chars[:10]
            if mode == "tape_ok":
                chars.append(rnd.choice(["\t", "\x0b", "\x0c", "\x1c", "\x1f", "\x85", " ", "я", "Z"]))
            elif rnd.random() < 0.6:
                chars = [c for c in chars if c in ref_chars] + [rnd.choice(["\u2003", "\u3000", "\xa0", "\u2009", "\u205f"])]
        case = {"kind": "asm", "mode": mode, "chars": "".join(chars), "included": rnd.random() < 0.3, "before": rnd.choice([None, None, "utf-8", "cp866", "koi8-r", "latin-1", "utf-16"]),
                "crlf": rnd.choice([None, None, "\r\n", "\r\n", " \r\n"]), "cuts": [rnd.randrange(100) for _ in range(rnd.randrange(1, 3))] if rnd.random() < 0.4 else None}
        vs = run_case(case, cnt)
        res["violations"].extend(vs)
        cnt["asm_programs"] += 1
        res["evaluations"] += 1
        res["distinct"].append("a" + mode + case["chars"])
        if i < 2:
            res["samples"].append(case)
    return res


_FOLD = []


def _foldable(ref_chars):
    if not _FOLD:
        import unicodedata
        pools = {"nfd": set(), "NFC": set(), "NFKC": set(), "case": set()}
        for cp in range(0x80, 0x10000):
            if 0xD800 <= cp < 0xE000:
                continue
            c = chr(cp)
            if c in ref_chars:
                d = unicodedata.normalize("NFD", c)
                if d != c and not all(x in ref_chars for x in d):
                    pools["nfd"].add(d)                           # decomposed spelling of a table character
                continue
            for form in ("NFC", "NFKC"):
                n = unicodedata.normalize(form, c)
                if n != c and n and all(x in ref_chars for x in n):
                    pools[form].add(c)
            if len(c.upper()) == 1 and c.upper() in ref_chars and ord(c.upper()) < 0x80 or len(c.lower()) == 1 and c.lower() in ref_chars and ord(c.lower()) < 0x80:
                pools["case"].add(c)
        pools["NFKC"] -= pools["NFC"]
        _FOLD.extend(sorted(v) for v in pools.values())
    return _FOLD


def run_case(case, cnt=None):
    from vlib import asm
    ref = reference_table()
    ref_chars = {ch: b for b, ch in ref.items()}
    ref_chars.setdefault("¤", 0x24)
    out = []

    def viol(what):
        out.append({"what": what, "case": case})

    if case["kind"] == "byte":
        b = case["b"]
        try:
            ch = bytes([b]).decode("bk")
        except Exception as ex:  # pylint: disable=broad-except
            viol(f"byte {b:#x} does not decode: {ex!r}")
            return out
        if len(ch) != 1:
            viol(f"byte {b:#x} decodes to {ch!r}, not to one character")
            return out
        try:
            back = ch.encode("bk")
        except Exception as ex:  # pylint: disable=broad-except
            viol(f"byte {b:#x} -> {ch!r} does not encode back: {ex!r}")
            return out
        if back != bytes([b]):
            viol(f"byte {b:#x} -> {ch!r} -> {back!r}: not a bijection")
        if ch != ref[b]:
            which = "ascii" if b < 0x7F else ("koi8_r" if b >= 0xC0 else "frozen 0x7F-0xBF column")
            viol(f"byte {b:#x} decodes to {ch!r} (U+{ord(ch):04X}); {which} reference says {ref[b]!r}")
    elif case["kind"] == "cp":
        ch = chr(case["cp"])
        exp = ref_chars.get(ch)
        try:
            got = ch.encode("bk")
            if exp is None or got != bytes([exp]):
                viol(f"U+{case['cp']:04X} encodes to {got!r}, reference {exp}")
        except UnicodeEncodeError as ex:
            if exp is not None or ex.start != 0:
                viol(f"U+{case['cp']:04X} refused / position {ex.start}; reference {exp}")
        except Exception as ex:  # pylint: disable=broad-except
            viol(f"U+{case['cp']:04X}: encode raised {type(ex).__name__}: {ex}")
    elif case["kind"] == "str":
        s = case["s"]
        first_bad = next((i for i, c in enumerate(s) if c not in ref_chars), None)
        try:
            got = s.encode("bk")
            if first_bad is not None:
                viol(f"string with unencodable {s[first_bad]!r} at {first_bad} encodes to {got!r}")
            elif got != bytes(ref_chars[c] for c in s):
                viol(f"string {s!r} encodes to {got!r}")
            elif got.decode("bk").replace("¤", "$") != s.replace("¤", "$"):
                viol(f"string {s!r} does not round-trip: {got.decode('bk')!r}")
        except UnicodeEncodeError as ex:
            if first_bad is None:
                viol(f"encodable string {s!r} refused at {ex.start}")
            elif ex.start != first_bad:
                viol(f"error names position {ex.start}, first offending index is {first_bad} in {s!r}")
            elif not ex.start < ex.end <= len(s):
                viol(f"error range {ex.start}..{ex.end} not inside the string of length {len(s)}")
        except Exception as ex:  # pylint: disable=broad-except
            viol(f"encode raised {type(ex).__name__}: {ex}")
    elif case["kind"] == "xgap":
        o = asm.assemble([("/c14/main.mac", case["src"])], charset="bk", wall=30)
        if cnt is not None:
            cnt["escape_gap_cases"] = cnt.get("escape_gap_cases", 0) + 1
        if o.cls != "fail" or "invalid-escape" not in o.ids("error"):
            viol(f"{case['src']!r}: the hex digits of '\\x' do not follow it directly; expected invalid-escape, got {o.brief()}")
    elif case["kind"] == "asm":
        mode, chars = case["mode"], case["chars"]
        bad = any(c not in ref_chars for c in chars)
        if mode.startswith("asci"):
            directive = ".asciz" if mode.startswith("asciz") else ".ascii"
            src = f'{directive} "{chars}"\n'
            expect = bytes(ref_chars.get(c, 0) for c in chars) + (b"\0" if directive == ".asciz" else b"")
            if case.get("cuts") and len(chars) >= 2:
                # the same text as several quoted chunks with <n> bytes between them: every chunk is checked, whichever comes last
                cuts = sorted({1 + c % (len(chars) - 1) for c in case["cuts"]})
                pieces = [chars[a:b] for a, b in zip([0] + cuts, cuts + [len(chars)])]
                src = directive + " " + " <101> ".join(f'"{pc}"' for pc in pieces) + "\n"
                expect = b"A".join(bytes(ref_chars.get(c, 0) for c in pc) for pc in pieces) + (b"\0" if directive == ".asciz" else b"")
                if cnt is not None:
                    cnt["asm_chunked_strings"] = cnt.get("asm_chunked_strings", 0) + 1
        elif mode.startswith("tape"):
            src = f'make_wav "t9.wav", "{chars}"\n.word 1\n'
            expect = None
        elif mode.startswith("char"):
            src = "".join(f".word '{c}\n" for c in chars)
            expect = b"".join(bytes([ref_chars.get(c, 0), 0]) for c in chars)
        else:
            if len(chars) % 2:
                chars = chars + "A"
            src = "".join(f'.word "{chars[i]}{chars[i + 1]}\n' for i in range(0, len(chars), 2))
            expect = bytes(ref_chars.get(c, 0) for c in chars)
        if case.get("crlf") and not case.get("included"):
            # the same text with CR LF (or a stray CR before the line end) as given by an API caller: the line ends are not part of
            # any literal, every character inside the literals is still exactly itself
            src = src.replace("\n", case["crlf"])
            if cnt is not None:
                cnt["asm_cr_line_ends"] = cnt.get("asm_cr_line_ends", 0) + 1
        files = [("/c14/main.mac", src)]
        tmpd = None
        if case.get("included"):
            # the same text in an included file: read from disk by the assembler itself
            import os
            import tempfile
            tmpd = tempfile.mkdtemp(prefix="c14-", dir=os.getcwd())
            with open(os.path.join(tmpd, "inc5.mac"), "w", encoding="utf-8", newline="") as fh:
                fh.write(src)
            files = [(os.path.join(tmpd, "main.mac"), '.include "inc5.mac"\n')]
            if cnt is not None:
                cnt["asm_included"] = cnt.get("asm_included", 0) + 1
        if case.get("before"):
            # the same text assembled for another output charset earlier in this process: whatever that gave, the bk result is the bk table's
            asm.assemble(files, charset=case["before"], wall=30)
            if cnt is not None:
                cnt["asm_after_other_charset"] = cnt.get("asm_after_other_charset", 0) + 1
        o = asm.assemble(files, charset="bk", wall=30)
        if tmpd:
            import shutil
            shutil.rmtree(tmpd, ignore_errors=True)
        if o.cls in ("stall",):
            return out
        if bad:
            if cnt is not None:
                cnt["asm_rejections_seen"] += int(o.cls == "fail")
            if o.cls != "fail":
                viol(f"unencodable character assembled: outcome {o.brief()} for {src!r}")
            elif "invalid-character" not in o.ids("error"):
                viol(f"unencodable character rejected without an invalid-character error: {o.brief()['diag']} for {src!r}")
        else:
            if o.cls != "ok":
                viol(f"encodable text rejected: {o.brief()} for {src!r}")
            elif expect is None:
                want = bytes(ref_chars[c] for c in chars).ljust(16, b" ")
                names = [a for ent in (o.emitted or []) for a in ent[4:] if isinstance(a, (bytes, bytearray))]
                if cnt is not None:
                    cnt["tape_names_compared"] = cnt.get("tape_names_compared", 0) + 1
                if not names or bytes(names[0]).ljust(16, b" ") != want:
                    viol(f"tape name {chars!r}: header name {[bytes(n).hex() for n in names]}, expected {want.hex()}")
            else:
                if cnt is not None:
                    cnt["asm_bytes_compared"] += len(expect)
                if o.code != expect:
                    viol(f"bytes differ: got {o.code.hex()} expected {expect.hex()} for {src!r}")
    return out
