"""C19  The listing agrees with the image.

Monitor: listing parser + reference symbol table (vlib/apm.py Ref.symbol_table) + the image of the same CLI run.
For every run with --lst: each source file that defines ordinary symbols has exactly one section headed by its name; every ordinary
symbol of that file appears exactly once with its final value in octal (sign allowed); lines are ordered by (value, name); every
listed label address inside the image is where the byte following that label lies (reference layout, itself checked by C02);
exactly one listing exists, beside the first output file, named after it (name or stem) with a .lst suffix.
"""
import os
import random
import re

PROPERTY = "C19"
LEVEL = "exploration"
RULE = ("generated 1-3-file programs (plus included files) with labels and constants of any value (negative, 0, > 16 bit), names that differ "
        "only in letter case from names in other files, x output selectors (-o x.bin, -o x.raw, -o x (no extension), make_bin, make_raw, make_wav, "
        "--implicit-bin, -o together with make_*); distinct = distinct listings with >= 3 symbols in >= 2 files")
ASSUMPTIONS = ["when both -o and a make_* directive are present the statement does not say which output is 'first': either location is accepted, exactly one listing must exist",
               "the value field is accepted as -?[0-7]+ (zero padded) equal to the value; a file that is compiled k times (included from k places without '.once') defines its symbols k times: 'exactly once' is read per compilation, all in the file's one section",
               "'named after it with a .lst suffix' is read as: the output's own format suffix (.bin of a bin file, .raw of a raw file) is replaced by .lst, any other name gets .lst appended (a tape image x.wav may give x.wav.lst or x.lst)"]
DECIDING_COUNTERS = ["cli_runs", "listings_parsed", "symbols_checked"]
MIN_DISTINCT = 30


def plan(tier, seed):
    n = 16 if tier == "quick" else 48
    total = 400 if tier == "quick" else 20000
    return [{"part": i, "parts": n, "seed": seed, "tier": tier, "count": max(1, total // n)} for i in range(n)]


def gen_top_prog(rnd):
    """Code that never mentions its labels by value, linked so high that it runs past 0o177777: the labels beyond keep their
    arithmetic values (200002 ...), in the image and in the listing alike."""
    from vlib import apm
    nfiles = rnd.choice([1, 2, 3])
    files = []
    for i in range(nfiles):
        stmts = []
        for j in range(rnd.randrange(2, 6)):
            stmts.append(apm.label(f"t{i}l{j}"))
            for _ in range(rnd.randrange(0, 4)):
                stmts.append(rnd.choice([apm.insn("nop"), apm.insn("clr", ("reg", rnd.randrange(6))), apm.data(".word", apm.num(rnd.randrange(0x10000))),
                                         apm.blk(".blkb", apm.num(2 * rnd.randrange(0, 9))), apm.insn("mov", ("imm", apm.num(rnd.randrange(100))), ("reg", 1))]))
            if rnd.random() < 0.4:
                stmts.append(apm.assign(f"t{i}k{j}", apm.num(rnd.choice([0, 5, -1, 0o200000, 0o177777, 0o200002, 1 << 20]))))
        files.append(apm.SrcFile(f"top{i}.mac", stmts))
    f = rnd.choice(files)
    f.stmts.insert(rnd.randrange(len(f.stmts) + 1), apm.link(apm.num(0o200000 - 2 * rnd.randrange(1, 12))))
    prog = apm.Program(files)
    apm.PAST_END_OK = True
    try:
        ref = apm.Ref(prog).run()
    except (apm.RefError, apm.Unmodelled):
        return None
    finally:
        apm.PAST_END_OK = False
    return prog, ref


def gen_prog(rnd):
    from vlib import apm, clicase
    if rnd.random() < 0.15:
        return gen_top_prog(rnd)
    host = clicase.build_host(rnd, nfiles=rnd.choice([1, 2, 3]), include=rnd.random() < 0.4, nstmt=rnd.randrange(2, 10))
    prog = host["prog"]
    # extra constants of any value; names that differ only in case across files
    vals = [0, -1, -2, 1, 0o177777, 0o200000, 1 << 20, -(1 << 18), 5, 5, 0o1000, 7, -0o100000]
    for i, f in enumerate(prog.files):
        for j in range(rnd.randrange(1, 5)):
            nm = rnd.choice(["valA", "VALa", "vala", "zz", "Zz", "mid", "MID", "dot.name", "x.y.z", "a.b"]) if rnd.random() < 0.6 else f"q{i}c{j}"
            if any(getattr(s, "name", None) and s.name.lower() == nm.lower() for s in f.stmts if s.k == "assign"):
                continue
            f.stmts.insert(rnd.randrange(1, len(f.stmts) + 1), apm.assign(nm, apm.num(rnd.choice(vals))))
    if rnd.random() < 0.25:
        # many compilation units (linked files + included files): 8-14 small included files, each with its own symbols
        n = rnd.randrange(8, 15)
        host_file = rnd.choice(prog.files)
        for j in range(n):
            nm = f"part{j}.mac"
            body = [apm.simple(".even"), apm.label(f"pl{j}"), apm.data(".word", apm.num(j)), apm.assign(f"pk{j}", apm.num(rnd.choice(vals)))]
            prog.aux[nm] = apm.SrcFile(nm, body)
            host_file.stmts.append(apm.include(nm))
    if rnd.random() < 0.25:
        # an unguarded file included from two places: every inclusion is a compilation of its own, with its own symbols at its own place
        body = [apm.simple(".even"), apm.label("twice7a"), apm.data(".word", apm.num(0o52525)), apm.label("twice7b"), apm.data(".byte", apm.num(1), apm.num(2)),
                apm.assign("twice7k", apm.num(rnd.choice(vals)))]
        prog.aux["twice7.mac"] = apm.SrcFile("twice7.mac", body)
        for _ in range(2):
            hf = rnd.choice(prog.files)
            hf.stmts += [apm.simple(".even"), apm.include("twice7.mac"), apm.simple(".even")]
    if rnd.random() < 0.25:
        # a '.once'-guarded file included from two places: it contributes (and is listed) once
        body = [apm.simple(".once"), apm.simple(".even"), apm.label("oncelab7"), apm.data(".word", apm.num(0o125252)), apm.assign("oncek7", apm.num(rnd.choice(vals)))]
        prog.aux["once7.mac"] = apm.SrcFile("once7.mac", body)
        for spell in ("once7.mac", rnd.choice(["once7.mac", "./once7.mac", "././once7.mac", ".//once7.mac"])):
            hf = rnd.choice(prog.files)
            hf.stmts.append(apm.simple(".even"))
            inc = apm.include("once7.mac")
            inc.spell = spell              # another spelling of the same path is the same file
            hf.stmts.append(inc)
    if rnd.random() < 0.25:
        # two different files with the same base name in two directories, one of them '.once'-guarded: each is a file of its own
        for d, guard in (("da7", rnd.random() < 0.5), ("db7", True)):
            nm = f"{d}/defs7.mac"
            body = ([apm.simple(".once")] if guard else []) + [apm.simple(".even"), apm.label(d + "lab"), apm.data(".word", apm.num(rnd.randrange(0x10000))),
                                                                apm.assign(d + "k", apm.num(rnd.choice(vals)))]
            prog.aux[nm] = apm.SrcFile(nm, body)
            hf = rnd.choice(prog.files)
            hf.stmts += [apm.simple(".even"), apm.include(nm)]
    if rnd.random() < 0.25:
        # linked so high that the image runs past the end of the address space: labels beyond it keep their arithmetic value (200002 ...)
        for f in prog.files:
            for s in f.stmts:
                if s.k == "link":
                    s.expr = apm.num(rnd.choice([0o177760, 0o177774, 0o177000, 0o177776, 0o177400]))
                    break
            else:
                continue
            break
    try:
        ref = apm.Ref(prog).run()
    except (apm.RefError, apm.Unmodelled):
        return None
    return prog, ref


SELECTORS = ["o-bin", "o-raw", "o-noext", "o-subdir", "make_bin", "make_raw", "make_wav", "implicit", "o+make", "make_bin-path", "o-dat", "make_raw-bin", "make_bin-img", "make2", "make2b", "make3", "implicit+make", "o-lst", "make_raw-lst"]


def parse_listing(text):
    """-> list of (filename, [(value_text, name)])."""
    sections = []
    cur = None
    for line in text.split("\n"):
        if line == "":
            cur = None
            continue
        m = re.match(r"^(-?[0-7]+) (\S+)$", line)
        if m and cur is not None:
            cur[1].append((m.group(1), m.group(2)))
        else:
            cur = (line, [])
            sections.append(cur)
    return sections


def run_shard(spec):
    import shutil
    import tempfile
    from vlib import apm
    rnd = random.Random(spec["seed"] * 694847539 + spec["part"])
    res = {"evaluations": 0, "distinct": [], "counters": {k: 0 for k in DECIDING_COUNTERS}, "sets": {"selectors": []},
           "samples": [], "violations": [], "inconclusive": []}
    cnt = res["counters"]
    root = tempfile.mkdtemp(prefix="c19-", dir=os.getcwd())
    try:
        for i in range(spec["count"]):
            g = gen_prog(rnd)
            if g is None:
                continue
            prog, ref = g
            case = {"prog": apm.to_json(prog), "selector": SELECTORS[(i + spec["part"]) % len(SELECTORS)]}
            vs, nontrivial, sample = run_case(case, cnt, root)
            res["violations"].extend(vs)
            res["evaluations"] += 1
            res["sets"]["selectors"].append(case["selector"])
            if nontrivial:
                res["distinct"].append(f"{spec['part']}|{i}")
            if i < 1 and sample:
                res["samples"].append({"selector": case["selector"], "listing": sample.split("\n")[:14]})
    finally:
        shutil.rmtree(root, ignore_errors=True)
    return res


def run_case(case, cnt=None, root=None):
    import shutil
    import tempfile
    from vlib import apm, cli, refcheck
    import pdpy11._cli  # noqa: F401  pylint: disable=unused-import
    if cnt is None:
        cnt = {}
    for k in DECIDING_COUNTERS:
        cnt.setdefault(k, 0)
    own = root is None
    if own:
        root = tempfile.mkdtemp(prefix="c19-", dir=os.getcwd())
    out = []
    nontrivial = False
    listing_text = None

    def viol(what):
        out.append({"what": what, "case": case})

    work = tempfile.mkdtemp(prefix="w-", dir=root)
    scratch = tempfile.mkdtemp(prefix="s-", dir=root)
    try:
        prog = apm.from_json(case["prog"])
        sel = case["selector"]
        main = prog.files[0]
        argv_sel = []
        candidates = []          # acceptable listing paths
        stem = main.name[:-4]
        # the listing is named after the first output: its own format suffix (.bin for a bin file, .raw for a raw file) is replaced by
        # .lst, any other name just gets .lst appended
        if sel == "o-bin":
            argv_sel = ["-o", "image.bin"]; candidates = [["image.lst"]]
        elif sel == "o-raw":
            argv_sel = ["-o", "image.raw"]; candidates = [["image.lst"]]
        elif sel == "o-noext":
            argv_sel = ["-o", "image"]; candidates = [["image.lst"]]
        elif sel == "o-dat":
            argv_sel = ["-o", "prog.dat"]; candidates = [["prog.dat.lst"]]
        elif sel == "o-subdir":
            argv_sel = ["-o", "out/image.bin"]; candidates = [["out/image.lst"]]
        elif sel == "o-lst":
            # an output that is itself called *.lst: '.lst' is not its format suffix, the listing is another file
            argv_sel = ["-o", "symbols.lst"]; candidates = [["symbols.lst.lst"]]
        elif sel == "make_raw-lst":
            main.stmts.append(apm.simple("make_raw", '"dump.lst"')); candidates = [["dump.lst.lst"]]
        elif sel == "make_bin":
            main.stmts.append(apm.simple("make_bin")); candidates = [[stem + ".lst"]]
        elif sel == "make_bin-path":
            main.stmts.append(apm.simple("make_bin", '"out/mk.bin"')); candidates = [["out/mk.lst"]]
        elif sel == "make_bin-img":
            main.stmts.append(apm.simple("make_bin", '"rom.img"')); candidates = [["rom.img.lst"]]
        elif sel == "make_raw":
            main.stmts.append(apm.simple("make_raw", '"mk.raw"')); candidates = [["mk.lst"]]
        elif sel == "make_raw-bin":
            main.stmts.append(apm.simple("make_raw", '"img.bin"')); candidates = [["img.bin.lst"]]
        elif sel == "make_wav":
            main.stmts.append(apm.simple("make_wav", '"mk.wav"')); candidates = [["mk.wav.lst", "mk.lst"]]
        elif sel == "make2":
            # several outputs: the listing goes with the FIRST one
            main.stmts.append(apm.simple("make_bin", '"first.bin"')); main.stmts.append(apm.simple("make_raw", '"second.raw"')); candidates = [["first.lst"]]
        elif sel == "make2b":
            main.stmts.insert(0, apm.simple("make_raw", '"out/r1.raw"')); main.stmts.append(apm.simple("make_bin", '"b2.bin"')); candidates = [["out/r1.lst"]]
        elif sel == "make3":
            prog.files[-1].stmts.append(apm.simple("make_bin", '"aa.bin"')); prog.files[-1].stmts.append(apm.simple("make_raw", '"out/zz.raw"'))
            prog.files[-1].stmts.append(apm.simple("make_bin", '"mm.img"')); candidates = [["aa.lst"]]
        elif sel == "implicit+make":
            # a make_* directive is the output: --implicit-bin then adds nothing, and the listing goes with the directive's file
            main.stmts.append(apm.simple("make_raw", '"image.raw"')); argv_sel = ["--implicit-bin"]; candidates = [["image.lst"]]
        elif sel == "implicit":
            argv_sel = ["--implicit-bin"]; candidates = [[stem + ".lst"]]
        else:
            main.stmts.append(apm.simple("make_bin", '"mk.bin"'))
            argv_sel = ["-o", "image.bin"]; candidates = [["mk.lst"], ["image.lst"]]
        apm.PAST_END_OK = prog.files[0].name.startswith("top")
        try:
            ref = apm.Ref(prog).run()
        finally:
            apm.PAST_END_OK = False
        texts = refcheck.render_all(prog)
        refcheck.materialise(prog, texts, work)
        for f in prog.files:
            with open(os.path.join(work, f.name), "w", encoding="utf-8") as fh:
                fh.write(texts[f.name])
        os.makedirs(os.path.join(work, "out"), exist_ok=True)
        argv = [f.name for f in prog.files] + argv_sel + ["--lst"]
        r = cli.run_cli(argv, work, scratch, timeout=120)
        cnt["cli_runs"] += 1
        if r["stall"]:
            return (out, False, None) if not own else out
        label = f"selector {sel} argv {argv_sel}"
        if r["exit"] != 0:
            viol(f"{label}: valid program failed with --lst: exit {r['exit']} events {r['events'][:3]} stderr {r['stderr'][-200:]!r}")
            return (out, False, None) if not own else out
        created = [c for c in r["diff"]["created"] if c.endswith(".lst")]
        if sel in ("o-lst", "make_raw-lst"):
            # the requested output: it must hold the image (raw: the bytes; bin: base, length, bytes), not a listing
            outp = "symbols.lst" if sel == "o-lst" else "dump.lst"
            created = [c for c in created if c != outp]
            try:
                with open(os.path.join(work, outp), "rb") as fh:
                    blob = fh.read()
            except OSError:
                blob = None
            img = bytes(ref.image)          # (instruction bytes are 0xAA placeholders in the reference image: compared by position elsewhere)
            body = None if blob is None else blob[len(blob) - len(img):] if len(blob) - len(img) in (0, 4) else None
            if body is None or any(a != b for a, b in zip(body, img) if b != 0xAA):
                viol(f"{label}: the output {outp} does not hold the image (file {None if blob is None else (len(blob), blob[:24].hex())}, reference {len(ref.image)} {bytes(ref.image)[:24].hex()})")
                return (out, False, None) if not own else out
            cnt["outputs_named_lst_checked"] = cnt.get("outputs_named_lst_checked", 0) + 1
        flat = [p for group in candidates for p in group]
        if len(created) != 1:
            viol(f"{label}: {len(created)} listing files written ({created}); exactly one expected among {flat}")
            return (out, False, None) if not own else out
        if created[0] not in flat:
            viol(f"{label}: listing written to '{created[0]}', expected beside the first output as one of {flat}")
        with open(os.path.join(work, created[0]), encoding="utf-8") as fh:
            listing_text = fh.read()
        cnt["listings_parsed"] += 1
        sections = parse_listing(listing_text)
        table = ref.symbol_table_multi()          # {(file name, symbol): values, one per compilation of that file}
        by_file = {}
        for (fn, name), v in table.items():
            by_file.setdefault(fn, {})[name] = v
        seen_files = {}
        for fn, rows in sections:
            nfn = os.path.normpath(fn)
            # (the reference names a file by its path below the source directory: 'da7/defs7.mac' and 'db7/defs7.mac' are two files)
            base = next((k for k in sorted(by_file, key=len, reverse=True) if nfn == k or nfn.endswith(os.sep + k)), os.path.basename(fn))
            seen_files[base] = seen_files.get(base, 0) + 1
            if base not in by_file:
                if rows:
                    viol(f"{label}: listing has a section '{fn}' with symbols {rows[:3]} but that file defines no ordinary symbols in the reference")
                continue
            if not os.path.isabs(fn) and fn != base:
                pass
            want = by_file[base]
            got_names = [n for _, n in rows]
            for n in want:
                c = sum(1 for g in got_names if g == n)
                if c != len(want[n]):
                    viol(f"{label}: symbol '{n}' of {base} is listed {c} times, the file is compiled {len(want[n])} time(s) (section rows {rows[:6]})")
            left = {n: list(vs) for n, vs in want.items()}
            for vt, n in rows:
                cnt["symbols_checked"] += 1
                if n not in want:
                    viol(f"{label}: '{n}' is listed under {base} but is not an ordinary symbol of that file ({sorted(want)[:8]})")
                    continue
                try:
                    v = int(vt, 8)
                except ValueError:
                    viol(f"{label}: value field {vt!r} of '{n}' is not octal")
                    continue
                if v > 0o177777:
                    cnt["listed_values_beyond_64k"] = cnt.get("listed_values_beyond_64k", 0) + 1
                if v in left[n]:
                    left[n].remove(v)
                else:
                    viol(f"{label}: '{n}' of {base} listed as {vt} (= {v}), its value is {' / '.join(f'{x} ({x:o} octal)' for x in want[n])}")
                if not re.match(r"^-?[0-7]{6,}$", vt):
                    viol(f"{label}: value field {vt!r} of '{n}' is not a zero-padded octal number")
            keys = []
            for vt, n in rows:
                try:
                    keys.append((int(vt, 8), n))
                except ValueError:
                    keys.append((0, n))
            if keys != sorted(keys):
                viol(f"{label}: section {base} is not ordered by (value, name): {rows[:8]}")
        for base, syms in by_file.items():
            if syms and seen_files.get(base, 0) != 1:
                viol(f"{label}: file {base} defines ordinary symbols {sorted(syms)[:4]} but has {seen_files.get(base, 0)} sections in the listing")
        nontrivial = len(table) >= 3 and len([b for b, s in by_file.items() if s]) >= 2
        return (out, nontrivial, listing_text) if not own else out
    finally:
        shutil.rmtree(work, ignore_errors=True)
        shutil.rmtree(scratch, ignore_errors=True)
        if own:
            shutil.rmtree(root, ignore_errors=True)
