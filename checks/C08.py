"""C08  Every input ends in a result or a reported error.

Monitor: outcome classifier at the API boundary (parse + Compiler.compile_and_link_files) under both real report handlers
(BareHandler, GraphicalHandler behind FilterHandler) inside a worker with a deterministic logical clock (sys.monitoring);
a sample is also run through the real CLI to tie the classes to the 'unexpected internal compiler error' banner and the
exit status.  Refuting events: outcome 'internal', 'nonterm' (logical budget), or 'fail' with zero error diagnostics.
"""
import os
import random
import re

PROPERTY = "C08"
LEVEL = "exploration"
RULE = ("grammar G at full width: loosely generated programs over every statement/operand/expression production, token-level and "
        "character-level mutation (<= 8 edits, incl. NUL/CR/tab/non-ASCII/unterminated quotes), splicing of practice-corpus lines, "
        "1-3 linked files with include/insert_file targets; <= 60 statements; distinct = distinct inputs (by text hash) that reached the compiler "
        "(were not rejected by a critical parse error)")
ASSUMPTIONS = ["'never loops forever' is decided as 'terminates within a logical budget of 3e6 + 3e4 x lines interpreter events inside pdpy11/' (largest legitimate cost observed: 3.7e5; typical < 1e5)",
               "a wall-clock stall without the logical budget firing is inconclusive, never a violation"]
DECIDING_COUNTERS = ["inputs", "reached_compiler"]
MIN_DISTINCT = 200
SHARD_TIMEOUT = {"quick": 2400, "thorough": 14400}

INC_FILES = {
    "inc1.mac": "inc1lab: .word 1, 2\n  mov #inc1lab, r0\n",
    "inc2.mac": ".once\ninc2v = 5\n .byte inc2v\n .even\n",
    "inc3.mac": "shared:: nop\n.include \"inc2.mac\"\n",
    # include cycles: unguarded (must be reported, not recursed into until the interpreter gives up), guarded by .once, and through a
    # differently spelled path
    "cyc1.mac": " nop\n.include \"cyc1.mac\"\n",
    "cyc2.mac": " nop\n.include \"cyc3.mac\"\n",
    "cyc3.mac": ".word 1\n.include \"./cyc2.mac\"\n",
    "cyg1.mac": ".once\n nop\n.include \"cyg2.mac\"\n",
    "cyg2.mac": ".once\n.word 2\n.include \"./cyg1.mac\"\n.include \"cyg2.mac\"\n",
}


def plan(tier, seed):
    n = 16 if tier == "quick" else 64
    total = 16000 if tier == "quick" else 600000
    return [{"part": i, "parts": n, "seed": seed, "tier": tier, "count": total // n} for i in range(n)]


# ---------------------------------------------------------------------------------------------------------------------
# known-finding predicates (DESIGN appendix D): mechanism keys computed from the input text and the outcome

from vlib.findings import definitional_cycle  # noqa: E402


# the OverflowErrors of the listed mechanism: an integer used as a size / repetition count / shift count that no container can have.
# (Not: a value that does not fit a C int, e.g. chr() of a code point >= 2**31 -- that is a different mechanism, fixed in 7ceb0f4.)
ASTRONOMIC_OVERFLOW = re.compile(r"index-sized|ssize_t|size_t|too many digits|shift count|too large to convert to float")


def known_key(texts, o):
    """Mechanism key of a listed finding, or None.  Keys are matched against known_findings.txt by the driver."""
    if o.cls == "nonterm" or (o.cls == "internal" and o.exc_type == "DeferredCycle") or \
            (o.cls == "internal" and o.exc_type == "RecursionError" and "__repr__" in (o.exc_where or "")):
        # (third face of the same mechanism: the cyclic value is being PRINTED for a diagnostic and its repr() recurses)
        if definitional_cycle(texts):
            return "definitional-cycle"
    if o.cls == "internal" and (o.exc_type == "MemoryError" or
                                (o.exc_type == "OverflowError" and ASTRONOMIC_OVERFLOW.search(o.exc or "")) or
                                (o.exc_type == "ValueError" and "Exceeds the limit" in (o.exc or ""))):
        return "astronomic-integer"
    if o.cls == "internal" and o.exc_type == "TypeError" and "Deferred" in (o.exc or "") and any("%" in t for t in texts):
        return "deferred-register-number"
    return None


_CONFIRMED_NONTERM = [0]

_UNMONITORED = r"""
import json, resource, sys
try:
    soft, hard = resource.getrlimit(resource.RLIMIT_AS)
    want = 3 << 30
    if hard != resource.RLIM_INFINITY:
        want = min(want, hard)
    resource.setrlimit(resource.RLIMIT_AS, (want, hard))
except (ValueError, OSError):
    pass
import pdpy11.bk_encoding
from pdpy11 import parser, compiler, reports
files = json.load(sys.stdin)
try:
    with reports.handle_reports(lambda *a: None):
        asts = [parser.parse(n, t) for n, t in files]
        compiler.Compiler(output_charset=sys.argv[1]).compile_and_link_files(asts)
except reports.UnrecoverableError:
    pass
print("ENDED")
"""


def finishes_unmonitored(files, charset):
    """Third stage for an input that exceeded the logical budget twice (1x, 40x): the plain assembler in a process of its own, no
    instrumentation, at most 3 GiB, 7 minutes.  True only if it came to an end by itself (success or reported failure)."""
    import json
    import subprocess
    import sys
    env = dict(os.environ, PYTHONPATH=os.environ.get("VERIF_REPO", "/repo"))
    env.pop("PDPY11_VERIF", None)
    try:
        r = subprocess.run([sys.executable, "-c", _UNMONITORED, charset], input=json.dumps([[n, t] for n, t in files]), capture_output=True, text=True,
                           timeout=420, env=env, cwd=os.path.dirname(files[0][0]) if os.path.isdir(os.path.dirname(files[0][0])) else None)
    except subprocess.TimeoutExpired:
        return False
    return r.returncode == 0 and r.stdout.strip().endswith("ENDED")


def huge_repeat(o):
    """A run that exhausts the logical budget inside '.repeat' expansion is an explicitly requested enormous amount of work
    (e.g. '.repeat 4294967296 { }'): finite, therefore not 'looping forever'; not judged, counted."""
    return o.cls == "nonterm" and "metacommands.py:repeat" in (o.exc_where or "")


# ---------------------------------------------------------------------------------------------------------------------

def gen_input(rnd, root):
    from vlib import gen
    nfiles = rnd.choice([1, 1, 1, 2, 3])
    files = []
    for i in range(nfiles):
        text, how = gen.hostile_text(rnd, files=("inc1.mac", "inc2.mac", "inc3.mac", "nosuch.mac", "cyc1.mac", "cyc2.mac", "cyg1.mac", "cyg2.mac"))
        lines = text.split("\n")
        if len(lines) > 60:
            text = "\n".join(lines[:60]) + "\n"
        files.append([os.path.join(root, f"f{i}.mac"), text])
    if nfiles >= 2 and rnd.random() < 0.4:
        # diagnostics that mention two files: one exported name declared in both, at unrelated depths of files of unrelated length;
        # a branch from one file to a label of the other
        a, b = rnd.sample(range(nfiles), 2)
        decl = lambda: rnd.choice(["twice::\n", "twice:: nop\n", "twice == 5\n", ".extern twice\ntwice: .word 0\n", "twice = 7\n.extern twice\n"])
        shapes = rnd.choice([(True, False), (False, True), (rnd.random() < 0.5, rnd.random() < 0.5)])
        for idx, short in ((a, shapes[0]), (b, shapes[1])):
            lines = files[idx][1].split("\n")
            if short:
                lines = lines[:rnd.randrange(0, 3)]
            pos = rnd.randrange(len(lines) + 1) if rnd.random() < 0.3 else len(lines)
            lines[pos:pos] = decl().rstrip("\n").split("\n")
            files[idx][1] = "\n".join(lines) + ("\n" if rnd.random() < 0.8 else "")
        if rnd.random() < 0.3:
            files[a][1] += rnd.choice(["sob r1, twice\n", "br twice\n", "bne twice + 2\n"])
    return files, how


def run_shard(spec):
    import hashlib
    import shutil
    import tempfile
    rnd = random.Random(spec["seed"] * 49979687 + spec["part"])
    res = {"evaluations": 0, "distinct": [], "counters": {k: 0 for k in DECIDING_COUNTERS}, "sets": {"diag_ids": [], "outcomes": [], "how": [], "internal_sites": []},
           "samples": [], "violations": [], "inconclusive": []}
    cnt = res["counters"]
    for k in ("ok", "fail", "internal", "nonterm", "stall", "cli_cross_checks", "leaks_at_quiescent_points", "max_steps"):
        cnt[k] = 0
    root = tempfile.mkdtemp(prefix="c08-", dir=os.getcwd())
    try:
        for name, text in INC_FILES.items():
            with open(os.path.join(root, name), "w", encoding="utf-8") as f:
                f.write(text)
        with open(os.path.join(root, "blob.bin"), "wb") as f:
            f.write(bytes(range(37)))
        max_steps = 0
        for i in range(spec["count"]):
            files, how = gen_input(rnd, root)
            big = any(re.search(r"(?i)\.?blk[bw]\s+(1777\d\d|6553\d|100000|77777)", t) for _, t in files)
            case = {"files": files, "handler": rnd.choice(["bare", "graphical", "record"]), "cli": (i % 100 == 0) or (bool(big) and i % 2 == 0), "root": root,
                    "charset": rnd.choice(["bk", "bk", "bk", "utf-8", "koi8-r", "cp1251"]),     # multi-byte and other single-byte output charsets
                    "wctl": rnd.choice(["everything", "everything", "default", "nothing", "ids-off", "ids-off"]), "wseed": rnd.randrange(1 << 30)}
            try:
                vs, info = run_one(case, cnt)
                res["violations"].extend(vs)
            except MemoryError:
                # an input that fills memory up to the worker's limit (the listed astronomic-integer finding) can leave so little room that
                # the harness itself cannot go on before the cyclic garbage is collected: collect, count, go on with the next input
                vs = info = None
                import gc
                gc.collect()
                cnt["harness_memory_errors"] = cnt.get("harness_memory_errors", 0) + 1
                continue
            if info.get("site") and "MemoryError" in info["site"]:
                import gc
                gc.collect()
            res["evaluations"] += 1
            cnt["inputs"] += 1
            cnt[info["cls"]] += 1
            max_steps = max(max_steps, info.get("steps") or 0)
            res["sets"]["outcomes"].append(info["cls"])
            res["sets"]["how"].append(how)
            res["sets"]["diag_ids"].extend(info["ids"])
            if info.get("site"):
                res["sets"]["internal_sites"].append(info["site"])
            if info["reached_compiler"]:
                cnt["reached_compiler"] += 1
                res["distinct"].append(hashlib.sha1("\0".join(t for _, t in files).encode("utf-8", "replace")).hexdigest()[:16])
            if i < 3:
                res["samples"].append({"how": how, "outcome": info["cls"], "text": files[0][1][:300]})
        # one planted fault of each catalogue kind in an otherwise valid program (1-2 files): the ONLY thing wrong with the input is
        # that fault, so the only diagnostics are its own; the run must fail and say why, through whichever handler and -W table
        from vlib import clicase, faults
        kinds = list(faults.KINDS)
        rnd.shuffle(kinds)
        for j, kind in enumerate(kinds[:max(6, spec["count"] // 12)] if spec["tier"] == "quick" else kinds * 3):
            try:
                host = clicase.build_host(rnd, nfiles=rnd.choice([1, 2]), include=rnd.random() < 0.4, nstmt=rnd.randrange(2, 8))
            except RuntimeError:
                continue
            # (in a linked file or in an included one: an error that aborts an included file must still end in a report)
            # (an included file may state a base of its own, and a '. =' in it re-bases it: those two kinds are faults in linked files only)
            spots = host["linked"] if kind in ("second-link", "backward-skip-late-target") else host["linked"] + host["included"] * 2
            clicase.plant(host, rnd, faults.render(kind, rnd.choice(["\t", "  ", ""])), where=rnd.choice(spots))
            for n in host["included"]:
                os.makedirs(os.path.dirname(os.path.join(root, n)), exist_ok=True)
                with open(os.path.join(root, n), "w", encoding="utf-8") as fh:
                    fh.write("\n".join(host["texts"][n]) + "\n")
            files = [[os.path.join(root, n), "\n".join(host["texts"][n]) + "\n"] for n in host["linked"]]
            case = {"files": files, "handler": rnd.choice(["bare", "graphical", "record"]), "cli": False, "root": root,
                    "wctl": rnd.choice(["everything", "default", "nothing", "ids-off"]), "wseed": rnd.randrange(1 << 30), "planted": kind}
            vs, info = run_one(case, cnt)
            if info["cls"] == "ok":
                vs.append({"what": f"a program whose only defect is the planted fault '{kind}' assembled successfully", "case": case})
            res["violations"].extend(vs)
            res["evaluations"] += 1
            cnt["single_fault_programs"] = cnt.get("single_fault_programs", 0) + 1
            cnt[info["cls"]] += 1
            res["sets"]["how"].append("planted")
            res["sets"]["diag_ids"].extend(info["ids"])
        # images whose byte sum sits on the boundaries of the tape checksum arithmetic (16-bit sum with end-around carry) and of the
        # 16-bit length fields, written through every container directive: accepted by the assembler proper, so the real CLI decides
        sums = sorted({k * 65536 + d for k in range(1, 5) for d in (-3, -2, -1, 0, 1)} | {k * 65535 + d for k in range(1, 5) for d in (-1, 0, 1)} |
                      {0, 1, 255, 65534})
        rnd.shuffle(sums)
        mine = sums[spec["part"] % 4::4] if spec["tier"] == "quick" else sums
        for s in mine:
            v = rnd.choice([255, 255, 255, 254, rnd.randrange(128, 256)])
            n, r = divmod(s, v)
            body = []
            if n:
                body.append(rnd.choice([f".repeat {n}. {{ .byte {v:o} }}", f".repeat {n}. {{ .byte {v}. }}"]))
            if r or rnd.random() < 0.3:
                body.append(f".byte {r:o}")
            if rnd.random() < 0.4:
                body.append(f".blkb {rnd.randrange(1, 40)}")
            rnd.shuffle(body)
            mk = rnd.choice(['make_wav "cb.wav"', 'make_turbo_wav "cb.wav"', 'make_wav "cb.wav", "NAME"', 'make_bin "cb.bin"', 'make_turbo_wav', 'make_wav'])
            text = "\n".join([mk] + body if rnd.random() < 0.7 else body + [mk]) + "\n"
            case = {"files": [[os.path.join(root, "f0.mac"), text]], "handler": rnd.choice(["bare", "graphical"]), "cli": True, "root": root,
                    "wctl": "default", "wseed": rnd.randrange(1 << 30), "boundary_sum": s}
            vs, info = run_one(case, cnt)
            res["violations"].extend(vs)
            res["evaluations"] += 1
            cnt["boundary_sum_images"] = cnt.get("boundary_sum_images", 0) + 1
            cnt[info["cls"]] += 1
            res["sets"]["how"].append("boundary-sum")
        # every directive name, with and without its dot, followed by a code block it may or may not take, after operands of several shapes
        from vlib import gen as _gen
        names = sorted(set(n.lstrip(".") for n in _gen.METANAMES))
        for nm in (names[spec["part"] % spec["parts"]::spec["parts"]] if spec["tier"] == "quick" else names):
            for dot in (".", ""):
                for ops in ("", " 1, 2", " \"a\"", " lab", " 2"):
                    spelled = dot + (nm.upper() if rnd.random() < 0.3 else nm)
                    text = rnd.choice(["", "lab: nop\n"]) + f"{spelled}{ops} {{ nop }}\n" + rnd.choice(["", " nop\n", f"{spelled}{ops} {{\n}}\n"])
                    case = {"files": [[os.path.join(root, "f0.mac"), text]], "handler": rnd.choice(["bare", "graphical", "record"]), "cli": False, "root": root,
                            "wctl": rnd.choice(["everything", "default", "nothing"]), "wseed": rnd.randrange(1 << 30)}
                    vs, info = run_one(case, cnt)
                    res["violations"].extend(vs)
                    res["evaluations"] += 1
                    cnt["directive_block_sweep_programs"] = cnt.get("directive_block_sweep_programs", 0) + 1
                    cnt[info["cls"]] += 1
                    res["sets"]["how"].append("directive-block-sweep")
                    res["sets"]["diag_ids"].extend(info["ids"])
        # every character after a backslash, in every quoting style and literal form: an escape is either defined or reported
        esc_chars = [chr(c) for c in range(0x20, 0x7F)] + ["\n", "\t", "\r", "\0", "\x7f", "\xe9", "\u044f", "\u2028", "\ufeff", "\U0001f600"]
        for ch in (esc_chars[spec["part"] % spec["parts"]::spec["parts"]] if spec["tier"] == "quick" else esc_chars):
            for q in "\"'/":
                form = rnd.choice([f".ascii {q}a\\{ch}b{q}", f".asciz {q}\\{ch}{q}", f".ascii {q}\\{ch}{q}", f".ascii <1>{q}x\\{ch}{q}<2>",
                                   f".word '\\{ch}", f".word \"\\{ch}\\{ch}", f".byte '\\{ch} + 1", f".rad50 {q}A\\{ch}{q}",
                                   f".ident {q}\\{ch}{q}", f"insert_file {q}blob\\{ch}bin{q}"])
                text = form + rnd.choice(["\n", "\n\tnop\n", ""])
                case = {"files": [[os.path.join(root, "f0.mac"), text]], "handler": rnd.choice(["bare", "graphical", "record"]), "cli": False, "root": root,
                        "wctl": rnd.choice(["everything", "default", "nothing"]), "wseed": rnd.randrange(1 << 30)}
                vs, info = run_one(case, cnt)
                res["violations"].extend(vs)
                res["evaluations"] += 1
                cnt["escape_sweep_programs"] = cnt.get("escape_sweep_programs", 0) + 1
                cnt[info["cls"]] += 1
                res["sets"]["how"].append("escape-sweep")
                res["sets"]["diag_ids"].extend(info["ids"])
        cnt["max_steps"] = 0
        res["sets"]["max_steps_seen"] = [max_steps]
    finally:
        shutil.rmtree(root, ignore_errors=True)
    return res


_ALL_IDS = []


def all_ids():
    """Every diagnostic identifier that occurs in the sources (over-inclusive: extra keys in a warning table are harmless)."""
    if not _ALL_IDS:
        import glob
        import re
        import pdpy11
        found = set()
        for path in glob.glob(os.path.join(os.path.dirname(pdpy11.__file__), "*.py")):
            with open(path, encoding="utf-8") as f:
                found.update(re.findall(r'"([a-z]+(?:-[a-z0-9]+)+)"', f.read()))
        _ALL_IDS.extend(sorted(found))
    return _ALL_IDS


def warning_control(case):
    """The table FilterHandler gets from the command line's -W options (-Wx -> True, -Wno-x -> False), chosen per case."""
    from pdpy11 import reports
    how = case.get("wctl", "everything")
    if how == "everything":
        return {w: True for w in reports.WARNING_CLASSES["all"]}
    if how == "default":
        return {}
    if how == "nothing":
        return {w: False for w in reports.WARNING_CLASSES["all"]}
    r = random.Random(case.get("wseed", 0))
    ids = all_ids()
    return {i: r.random() < 0.25 for i in r.sample(ids, min(len(ids), r.randrange(1, 40)))}


def make_handler(kind, rec, case=None, shown=None):
    from pdpy11 import reports
    if kind == "record":
        return rec
    real = reports.BareHandler() if kind == "bare" else reports.GraphicalHandler()

    def past_filter(priority, identifier, *spans):
        if shown is not None:
            shown.append(("warning" if priority is reports.warning else "error", identifier))
        real(priority, identifier, *spans)
    filt = reports.FilterHandler(past_filter, warning_control(case or {}))

    def tee(priority, identifier, *spans):
        rec(priority, identifier, *spans)
        filt(priority, identifier, *spans)
    return tee


def run_one(case, cnt):
    from vlib import asm
    out = []
    files = [(n, t) for n, t in case["files"]]
    nlines = sum(t.count("\n") + 1 for _, t in files)
    budget = 3_000_000 + 30_000 * nlines
    rec = asm.Recorder()
    shown = []
    o = asm.assemble(files, charset=case.get("charset", "bk"), budget=budget, wall=300, handler=make_handler(case["handler"], rec, case, shown))
    o.events = rec.events
    texts = [t for _, t in files]
    if o.cls == "nonterm" and not huge_repeat(o) and known_key(texts, o) is None and _CONFIRMED_NONTERM[0] < 1:
        # many lazily sized statements before the base is known cost O(n^3) steps: slow, but finite.  Decide with a 40x budget.
        rec = asm.Recorder()
        shown = []
        o2 = asm.assemble(files, charset=case.get("charset", "bk"), budget=40 * budget, wall=900, handler=make_handler(case["handler"], rec, case, shown))
        o2.events = rec.events
        if o2.cls == "nonterm" and finishes_unmonitored(files, case.get("charset", "bk")):
            # a few hundred lazily sized statements can cost more than 40 budgets and still end (minutes): the same input, unmonitored,
            # in a process of its own, came to an end by itself -> slow, not judged
            o2.cls = "stall"
            cnt["slow_but_terminating_unmonitored"] = cnt.get("slow_but_terminating_unmonitored", 0) + 1
        if o2.cls != "nonterm":
            cnt["slow_but_terminating"] = cnt.get("slow_but_terminating", 0) + 1
        else:
            # (after one input of this shard that does not end with the 40x budget nor unmonitored, further ones are reported at the plain budget:
            # a tree that hangs on many inputs must not use up the shard's wall clock before anything is reported)
            _CONFIRMED_NONTERM[0] += 1
        o = o2
    info = {"cls": o.cls, "steps": o.steps, "ids": sorted(set(e["id"] for e in o.events)),
            "reached_compiler": o.compiler is not None, "site": None}
    texts = [t for _, t in files]

    def viol(what, key=None):
        v = {"what": what, "case": {k: v for k, v in case.items()}}
        if key:
            v["known_key"] = key
        out.append(v)

    brief = texts[0][:200].replace("\n", "\\n")
    if o.cls == "internal":
        info["site"] = f"{o.exc_type}@{o.exc_where}"
        viol(f"internal exception {o.exc_type} at {o.exc_where}: {o.exc} (handler {case['handler']}); input starts: {brief}", known_key(texts, o))
    elif o.cls == "nonterm" and huge_repeat(o):
        info["cls"] = "stall"
        cnt["excluded_huge_repeat"] = cnt.get("excluded_huge_repeat", 0) + 1
    elif o.cls == "nonterm":
        how = "keeps allocating: stopped by the memory guard after" if asm.CLOCK.mem_fired else "does not terminate within the logical budget"
        viol(f"{how} ({o.steps} events, budget {budget}); input starts: {brief}", known_key(texts, o))
    elif o.cls == "fail" and not o.errors:
        viol(f"assembly failed without any error diagnostic (events: {[(e['sev'], e['id']) for e in o.events][:5]}); input starts: {brief}")
    elif o.cls == "fail" and case["handler"] != "record" and not any(sev == "error" for sev, _ in shown):
        viol(f"assembly failed and no error got past the warning filter to the {case['handler']} handler (warning table {case.get('wctl')}: "
             f"{ {k: v for k, v in warning_control(case).items() if k in set(e['id'] for e in o.events)} }; issued: {[(e['sev'], e['id']) for e in o.events][:5]}); input starts: {brief}")
    elif o.cls == "fail" and case["handler"] != "record":
        cnt["failed_runs_with_error_past_filter"] = cnt.get("failed_runs_with_error_past_filter", 0) + 1
    if o.leaks:
        cnt["leaks_at_quiescent_points"] += 1
        if o.cls in ("ok", "fail"):
            viol(f"module state not at rest after outcome {o.cls}: {o.leaks}; input starts: {brief}")
    if (case.get("cli") or o.cls == "ok") and o.cls in ("ok", "fail", "internal"):
        out.extend(cli_cross_check(case, o, cnt))
    return out, info


def cli_cross_check(case, o, cnt):
    """The same input through the real CLI: classes must map onto exit status / banner."""
    import shutil
    import tempfile
    from vlib import cli
    import pdpy11._cli  # noqa: F401  pylint: disable=unused-import
    out = []
    root = case["root"]
    scratch = tempfile.mkdtemp(prefix="c08cli-", dir=os.getcwd())
    try:
        if not os.path.isdir(root):
            os.makedirs(root, exist_ok=True)
            for name, text in INC_FILES.items():
                with open(os.path.join(root, name), "w", encoding="utf-8") as f:
                    f.write(text)
            with open(os.path.join(root, "blob.bin"), "wb") as f:
                f.write(bytes(range(37)))
        argv = []
        for name, text in case["files"]:
            with open(name, "w", encoding="utf-8", newline="") as f:
                f.write(text)
            argv.append(name)
        argv += ["--report-format", "bare" if case["handler"] == "bare" else "graphical", "-o", os.path.join(scratch, "out.bin")]
        if case.get("charset", "bk") != "bk":
            argv += ["--charset", case["charset"]]
        if case.get("wseed", 0) % 2 or o.cls == "ok":
            argv.append("--lst")          # the listing is produced from the same symbol table: whatever the names look like
        r = cli.run_cli(argv, root, scratch, timeout=300, tag="x")
        cnt["cli_cross_checks"] += 1
        for name, _ in case["files"]:
            if os.path.exists(name):
                os.unlink(name)
        # remove anything the run created in root (make_* outputs)
        for rel in r["diff"]["created"]:
            p = os.path.join(root, rel)
            if os.path.isfile(p):
                os.unlink(p)
        if r["stall"]:
            return out
        # text round trip through a file can change the input (lone surrogates, CR handling): compare only when identical
        want = {"ok": (0, False), "fail": (1, False), "internal": (1, True)}[o.cls]
        got = (r["exit"], r["internal_error"])
        if o.cls == "ok" and got != want and r["events"] and all(e[0] == "warning" for e in r["events"]) and any("io-error" == e[1] for e in r["events"]):
            return out
        if got != want and not any(ord(c) > 0xD7FF and ord(c) < 0xE000 for _, t in case["files"] for c in t) and "\r" not in "".join(t for _, t in case["files"]):
            # emit-time errors (make_* to an unwritable path) legitimately turn an API 'ok' into a CLI failure
            if o.cls == "ok" and got == (1, False) and any(e[1] == "io-error" for e in r["events"]):
                return out
            # ... and so does an image that the requested container cannot describe (bin / tape headers hold 16-bit lengths)
            if o.cls == "ok" and got == (1, False) and o.code is not None and len(o.code) > 0xFFFF and \
                    (b"can only hold up to 65535 bytes" in r["stderr"] or any(e[1] == "value-out-of-bounds" for e in r["events"])):
                cnt["cli_container_limit_reported"] = cnt.get("cli_container_limit_reported", 0) + 1
                return out
            v = {"what": f"API outcome {o.cls} but CLI exit {r['exit']} banner={r['internal_error']}; stderr tail {r['stderr'][-200:]!r}",
                 "case": {k: v for k, v in case.items()}}
            tail = r["stderr"][-400:].decode("utf-8", "replace")
            if r["internal_error"] and ("MemoryError" in tail or ("OverflowError" in tail and ASTRONOMIC_OVERFLOW.search(tail))):
                # the listed finding: a fill of hundreds of megabytes that this process could still allocate and the child could not
                v["known_key"] = "astronomic-integer"
            out.append(v)
    finally:
        shutil.rmtree(scratch, ignore_errors=True)
    return out


def run_case(case, cnt=None):
    import shutil
    cnt = cnt if cnt is not None else {"leaks_at_quiescent_points": 0, "cli_cross_checks": 0}
    root = case["root"]
    made = False
    if not os.path.isdir(root):
        os.makedirs(root, exist_ok=True)
        made = True
        for name, text in INC_FILES.items():
            with open(os.path.join(root, name), "w", encoding="utf-8") as f:
                f.write(text)
        with open(os.path.join(root, "blob.bin"), "wb") as f:
            f.write(bytes(range(37)))
    try:
        vs, _ = run_one(case, cnt)
        return vs
    finally:
        if made:
            shutil.rmtree(root, ignore_errors=True)
