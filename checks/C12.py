"""C12  The link base is what the source says, or an error.

Monitor: the reference (vlib/apm.py Ref) lays the program out, evaluates the link expression (label offsets are known, so
K + sum k_i (L_i - L_j) is a number) and decides by perturbation whether the base genuinely depends on itself; compared with the
real assembler's reported base, image and outcome class (recursive-definition, address-conflict, value-out-of-bounds).
Forward '. = X' must zero-fill exactly, backward must be refused.
"""
import os
import random

PROPERTY = "C12"
LEVEL = "exploration"
RULE = ("link expressions K + sum k_i*(L_i - L_j), also through intermediate symbols, shifts and division of differences, with the labels "
        "anywhere in 1-3 files, the directive ('.link' or a leading '. =') at every position of its file, ordinary statements between; "
        "self-dependent bases (net coefficient != 0, non-linear in '.') and second '.link's as rejection cases; default base; '. =' skips of "
        "every size 0-64 forward and backward with the target defined before/after; distinct = distinct (link-expression shape, site position class, skip class)")
ASSUMPTIONS = ["a non-leading '. =' before any base was set (which this implementation treats as setting the base) is not generated",
               "listed finding link-cancellation (D11): a zero-net link expression is rejected when the program contains a statement whose size or "
               "encoding is computed from the address ('.even', '.align', word data (parity check), '. =' skip)"]
DECIDING_COUNTERS = ["programs", "bases_compared", "rejections_expected", "rejections_confirmed", "skips_checked"]
MIN_DISTINCT = 50


def plan(tier, seed):
    n = 16 if tier == "quick" else 48
    total = 10000 if tier == "quick" else 400000
    return [{"part": i, "parts": n, "seed": seed, "tier": tier, "count": total // n} for i in range(n)]


def filler(rnd, parity_dependent):
    from vlib import apm
    r = rnd.random()
    if parity_dependent and r < 0.5:
        return [rnd.choice([apm.simple(".even"), apm.data(".word", apm.num(rnd.randrange(0x10000))), apm.blk(".align", apm.num(rnd.choice([2, 4, 8]))),
                            apm.wordlist(apm.num(5), apm.num(6))])]
    if r < 0.4:
        return [apm.insn(rnd.choice(["nop", "halt", "rti", "clc"]))]
    if r < 0.6:
        return [apm.insn("mov", ("imm", apm.num(rnd.randrange(100))), ("reg", rnd.randrange(6)))]
    if r < 0.8:
        return [apm.blk(".blkb", apm.num(2 * rnd.randrange(0, 8)))]
    return [apm.insn("clr", ("abs", apm.num(rnd.randrange(0x8000) * 2)))]


def gen_program(rnd):
    from vlib import apm
    nfiles = rnd.choice([1, 1, 2, 3])
    parity_dep = rnd.random() < 0.35
    files = []
    labels = []
    for i in range(nfiles):
        stmts = []
        for j in range(rnd.randrange(2, 6)):
            name = f"lk{i}x{j}"
            stmts.append(apm.label(name, extern=(nfiles > 1)))
            labels.append(name)
            for _ in range(rnd.randrange(0, 4)):
                stmts.extend(filler(rnd, parity_dep))
        files.append(apm.SrcFile(f"f{i}.mac", stmts))
    aux = {}
    if rnd.random() < 0.25:
        # part of one file lives in an included file (its labels exported): a difference may then mix labels of the two
        f = rnd.choice(files)
        if len(f.stmts) >= 3:
            a = rnd.randrange(0, len(f.stmts) - 1)
            b = rnd.randrange(a + 1, len(f.stmts) + 1)
            moved = [apm.label(s.labels[0][0], extern=True) if (s.k == "nop" and s.labels) else s for s in f.stmts[a:b]]
            name = f"inc12x{files.index(f)}.mac"
            aux[name] = apm.SrcFile(name, moved)
            f.stmts[a:b] = [apm.include(name)]
    kind = rnd.choice(["none", "const", "diff", "diff", "diff2", "viasym", "shiftdiv", "shiftdiv", "self", "selfnonlin", "second", "dotlead", "dotlead-diff", "aliascoef",
                       "aliascoef", "chain2", "fwdmul", "mulright", "mulright", "shadow"])
    if kind == "shadow" and nfiles < 2:
        kind = "mulright"
    K = rnd.choice([0, 0o1000, 0o2000, 0o40000, 0o100000, 0o400, 0o157000])
    if rnd.random() < 0.15:
        # odd bases: only byte-sized content is meaningful there
        K += 1
        for f in files + list(aux.values()):
            f.stmts = [s for s in f.stmts if s.k not in ("insn", "wordlist", "data") and not (s.k == "simple")]
            f.stmts = [s for s in f.stmts if not (s.k == "blk" and s.d == ".align")]
            for s in list(f.stmts):
                if s.k == "nop" and rnd.random() < 0.5:
                    f.stmts.insert(f.stmts.index(s) + 1, apm.data(".byte", apm.num(rnd.randrange(256))))
        parity_dep = False
    tag = kind

    def diff():
        a, b = rnd.sample(labels, 2) if len(labels) >= 2 else (labels[0], labels[0])
        return ("bin", "-", ("sym", a), ("sym", b))

    extra_defs = []
    expr = None
    if kind == "const":
        expr = apm.num(K)
    elif kind == "diff":
        expr = ("bin", "+", apm.num(K), diff())
    elif kind == "diff2":
        expr = ("bin", "-", ("bin", "+", apm.num(K), ("bin", "*", apm.num(rnd.choice([2, 3])), ("grp", diff()))), ("grp", diff()))
    elif kind == "viasym":
        extra_defs.append(apm.assign("span", diff(), extern=nfiles > 1))
        expr = ("bin", "+", ("sym", "span"), apm.num(K))
    elif kind == "aliascoef":
        # labels reached through aliases (possibly assigned before the labels exist), with coefficients other than +1
        a, b = rnd.sample(labels, 2) if len(labels) >= 2 else (labels[0], labels[0])
        extra_defs.append(apm.assign("palias", ("bin", "+", ("sym", a), apm.num(rnd.choice([0, 2, 6]))), extern=nfiles > 1))
        extra_defs.append(apm.assign("qalias", ("sym", b), extern=nfiles > 1))
        c = rnd.choice([1, 2, 3])
        expr = ("bin", "-", ("bin", "+", apm.num(K), ("bin", "*", apm.num(c), ("sym", "palias"))), ("bin", "*", apm.num(c), ("sym", "qalias")))
        if rnd.random() < 0.3:
            expr = ("bin", "-", ("bin", "+", apm.num(K), ("sym", "palias")), ("sym", "qalias"))
    elif kind == "chain2":
        # a label reached through a chain of two symbols (anywhere in the file, often after the directive)
        a, b = rnd.sample(labels, 2) if len(labels) >= 2 else (labels[0], labels[0])
        extra_defs.append(apm.assign("pch", ("sym", "qch")))
        extra_defs.append(apm.assign("qch", ("sym", a)))
        expr = ("bin", "-", ("bin", "+", apm.num(K), ("sym", "pch")), ("sym", b))
    elif kind == "fwdmul":
        # both labels multiplied separately by a constant that is itself defined through a later one: k*e - k*s
        a, b = rnd.sample(labels, 2) if len(labels) >= 2 else (labels[0], labels[0])
        extra_defs.append(apm.assign("kmul", ("bin", "+", ("sym", "nmul"), apm.num(1))))
        extra_defs.append(apm.assign("nmul", apm.num(rnd.choice([1, 2]))))
        expr = ("bin", "-", ("bin", "+", apm.num(K), ("bin", "*", ("sym", "kmul"), ("sym", a))), ("bin", "*", ("sym", "kmul"), ("sym", b)))
    elif kind == "mulright":
        # label * constant (the label is the left factor), often the label at the very first byte of the program
        a, b = rnd.sample(labels, 2) if len(labels) >= 2 else (labels[0], labels[0])
        if rnd.random() < 0.5 and b != labels[0]:
            a = labels[0]
        elif rnd.random() < 0.5 and a != labels[0]:
            b = labels[0]
        c = rnd.choice([1, 2, 2, 3])
        expr = ("bin", "-", ("bin", "+", apm.num(K), ("bin", "*", ("sym", a), apm.num(c))), ("bin", "*", ("sym", b), apm.num(c)))
    elif kind == "shadow":
        # the last file computes its base from two PRIVATE labels it defines further down; the first file exports the same names,
        # another distance apart: the file's own definitions are meant
        fl = files[-1]
        fl.stmts.append(apm.label("shx"))
        for _ in range(rnd.randrange(1, 4)):
            fl.stmts.extend(filler(rnd, False))
        fl.stmts.append(apm.label("shy"))
        fl.stmts.append(apm.data(".byte", apm.num(1), apm.num(2)))
        files[0].stmts.insert(rnd.randrange(len(files[0].stmts) + 1), apm.label("shx", extern=True))
        files[0].stmts.append(apm.data(".byte", apm.num(3), apm.num(4), apm.num(5), apm.num(6)))
        files[0].stmts.append(apm.label("shy", extern=True))
        own = ("bin", "+", apm.num(K), ("bin", "-", ("sym", "shy"), ("sym", "shx")))
        fl.stmts.insert(rnd.randrange(0, max(1, len(fl.stmts) - 6)), apm.link(own))
        tag += "|own-names"
    elif kind == "shiftdiv":
        expr = ("bin", "+", apm.num(K), rnd.choice([("bin", "<<", ("grp", diff()), apm.num(1)), ("bin", "/", ("grp", diff()), apm.num(2)),
                                                    ("bin", "&", ("grp", diff()), apm.num(0o177776)), ("bin", ">>", ("grp", diff()), apm.num(rnd.choice([1, 2]))),
                                                    ("bin", "*", ("grp", ("bin", ">>", ("grp", diff()), apm.num(1))), apm.num(2)),
                                                    ("bin", "_", ("grp", diff()), apm.num(rnd.choice([1, -1])))]))
        if K == 0:
            expr = ("bin", "+", apm.num(0o2000), expr[3])      # (a negative difference shifted right stays negative)
    elif kind == "self":
        expr = rnd.choice([("bin", "+", ("sym", rnd.choice(labels)), apm.num(2)), ("bin", "+", ("dot",), apm.num(K)),
                           ("bin", "-", ("bin", "*", apm.num(2), ("sym", rnd.choice(labels))), ("sym", rnd.choice(labels)))])
    elif kind == "selfnonlin":
        expr = rnd.choice([("bin", "%", ("dot",), apm.num(46)), ("bin", "|", ("sym", rnd.choice(labels)), apm.num(1)), ("bin", ">>", ("sym", rnd.choice(labels)), apm.num(1))])
    elif kind == "second":
        expr = apm.num(K)
    if kind in ("dotlead", "dotlead-diff"):
        e = apm.num(K) if kind == "dotlead" else ("bin", "+", apm.num(K), diff())
        d = apm.dotassign(e)
        d.is_base = True
        files[0].stmts.insert(0, d)
        if rnd.random() < 0.35:
            # statements that emit nothing before it: it is still the leading '. ='
            files[0].stmts.insert(0, rnd.choice([apm.simple(".list"), apm.simple(".title", "some text"), apm.assign("zq9pre", apm.num(5)), apm.simple(".page")]))
            tag += "+pre"
    elif expr is not None:
        f = rnd.choice(files)
        pos = rnd.randrange(len(f.stmts) + 1)
        f.stmts.insert(pos, apm.link(expr))
        tag += "|first" if (f is files[0] and pos == 0) else ("|last" if pos == len(f.stmts) - 1 else "|middle")
        if kind == "second":
            g = rnd.choice(files)
            g.stmts.insert(rnd.randrange(len(g.stmts) + 1), apm.link(apm.num(rnd.choice([K, K + 2, 0o3000]))))
    for d in extra_defs:
        f = rnd.choice(files)
        f.stmts.insert(rnd.choice([0, 0, rnd.randrange(len(f.stmts) + 1), len(f.stmts)]), d)
    # skips after the base site (in link order)
    skip_tag = "noskip"
    if kind not in ("none", "self", "selfnonlin", "second") and rnd.random() < 0.5:
        seen_site = False
        for f in files:
            for idx, s in enumerate(list(f.stmts)):
                if s.k == "link" or (s.k == "dot" and getattr(s, "is_base", False)):
                    seen_site = True
            if seen_site:
                n = rnd.choice([0, 1, 1, 2, 3, 64, rnd.randrange(0, 65), rnd.randrange(0, 65)])     # the smallest moves are the boundary
                back = rnd.random() < 0.3
                how = rnd.choice(["dot", "label", "latesym", "repeat-align"])
                pos = rnd.randrange(max(1, len(f.stmts) // 2), len(f.stmts) + 1)
                # never before the site within this file
                site_idx = max([i for i, s in enumerate(f.stmts) if s.k in ("link",) or (s.k == "dot" and getattr(s, "is_base", False))] + [-1])
                pos = max(pos, site_idx + 1)
                if how == "repeat-align":
                    # the alignment idiom in every copy of a repeat body: each copy moves forward to ITS next multiple of m
                    m = rnd.choice([4, 4, 8, 6])
                    al = ("bin", "+", ("bin", "*", ("bin", "/", ("dot",), apm.num(m)), apm.num(m)), apm.num(m))
                    bodyst = [apm.data(".byte", *[apm.num(rnd.randrange(256)) for _ in range(rnd.randrange(0, 3))]), apm.dotassign(al)]
                    f.stmts.insert(pos, apm.repeat(apm.num(rnd.choice([2, 3, 4])), bodyst if rnd.random() < 0.7 else bodyst[1:]))
                    f.stmts.insert(pos + 1, apm.label(f"afterskip{len(f.stmts)}"))
                    f.stmts.insert(pos + 2, apm.data(".byte", apm.num(0o125)))
                    f.stmts.insert(pos + 3, apm.simple(".even"))
                    skip_tag = f"skip|fwd|repeat-align|{m}"
                    break
                if how == "dot":
                    e = ("bin", "-" if back else "+", ("dot",), apm.num(n, "d"))
                elif how == "label":
                    prior = [l[0] for s in f.stmts[:pos] for l in s.labels]
                    if not prior:
                        e = ("bin", "+", ("dot",), apm.num(n, "d"))
                        back = False
                    else:
                        lab = prior[-1]
                        e = ("bin", "+", ("dot",), apm.num(n, "d")) if not back else ("bin", "-", ("sym", lab), apm.num(n + 2, "d"))
                else:
                    e = ("bin", "+", ("dot",), ("sym", "skipby"))
                    f.stmts.append(apm.assign("skipby", apm.num(-n - 1 if back else n)))
                if back and n == 0 and how == "dot":
                    back = False
                f.stmts.insert(pos, apm.dotassign(e))
                f.stmts.insert(pos + 1, apm.label(f"afterskip{len(f.stmts)}"))
                f.stmts.insert(pos + 2, apm.data(".byte", apm.num(0o125)))
                f.stmts.insert(pos + 3, apm.simple(".even"))
                skip_tag = f"skip|{'back' if back else 'fwd'}|{how}|{n}"
                break
    # probes: every label value (not always: a statement that has to wait for an address, after the directive, changes how often
    # the pending link expression is re-tried; without probes base and image length are what is compared)
    if rnd.random() < 0.3:
        tag += "|noprobe"
    elif K % 2 == 0:
        files[-1].stmts.append(apm.simple(".even"))
        files[-1].stmts.append(apm.data(".word", *[("sym", l) for l in labels[:12]]))
    else:
        files[-1].stmts.append(apm.data(".byte", *[("bin", "&", ("sym", l), apm.num(0o377)) for l in labels[:12]]))
    if aux:
        tag += "|inc"
    return apm.Program(files, aux=aux), f"{tag}|{'parity' if parity_dep else 'plain'}", skip_tag, kind, parity_dep


def run_shard(spec):
    import shutil
    import tempfile
    from vlib import apm
    rnd = random.Random(spec["seed"] * 413158511 + spec["part"])
    res = {"evaluations": 0, "distinct": [], "counters": {k: 0 for k in DECIDING_COUNTERS}, "sets": {"kinds": [], "skips": []},
           "samples": [], "violations": [], "inconclusive": []}
    cnt = res["counters"]
    cnt["unmodelled"] = 0
    root = tempfile.mkdtemp(prefix="c12-", dir=os.getcwd())
    try:
        for i in range(spec["count"]):
            prog, tag, skip_tag, kind, parity_dep = gen_program(rnd)
            case = {"prog": apm.to_json(prog), "tag": tag, "skip": skip_tag, "kind": kind, "parity": parity_dep}
            res["violations"].extend(run_case(case, cnt, root))
            res["evaluations"] += 1
            cnt["programs"] += 1
            res["sets"]["kinds"].append(tag)
            res["sets"]["skips"].append(skip_tag.rsplit("|", 1)[0])
            res["distinct"].append(tag + "|" + skip_tag)
            if i < 2:
                res["samples"].append({"tag": tag, "skip": skip_tag, "files": {f.name: apm.r_file(f).splitlines()[:14] for f in prog.files}})
        # literal bases: every spelling of a number, in and out of the 16-bit range, at each of the three sites
        for i in range(spec["count"] // 8):
            r = rnd.random()
            if r < 0.3:
                v = rnd.choice([0, 0o1000, 0o177776, 0o177777, 0o100000, -2, -0o177777, -0o100000, 0o200000, -0o200000, 65536, -65536, 0o1000000, 0o200001, 65535])
            elif r < 0.6:
                v = rnd.randrange(-(1 << 17), 1 << 17)
            else:
                v = rnd.randrange(-70000, 70000) if rnd.random() < 0.5 else rnd.randrange(0, 0x10000)
            how = rnd.choice(["o", "o", "d", "x", "O", "bad8"])
            mag = abs(v)
            if how == "bad8":
                # an octal-looking literal with a digit 8 or 9: not a number of any value
                lit = ("-" if v < 0 else "") + str(mag % 10000) + rnd.choice("89") + str(rnd.randrange(10))
            else:
                lit = ("-" if v < 0 else "") + {"o": f"{mag:o}", "d": f"{mag}.", "x": f"^X{mag:x}", "O": f"^O{mag:o}"}[how]
            site = rnd.choice(["link-first", "dot-first", "link-last"])
            case = {"literal": lit, "value": v, "how": how, "site": site}
            res["violations"].extend(run_case(case, cnt, root))
            res["evaluations"] += 1
            res["distinct"].append(f"literal|{how}|{site}|{'in' if -65536 < v < 65536 else 'out'}")
            res["sets"]["kinds"].append(f"literal-{how}")
        # a second base setting hidden in a block that is only compiled while the written base expression is being evaluated
        for i in range(6 if spec["tier"] == "quick" else 60):
            k1, k2 = rnd.choice([0o1000, 0o2000, 0o400]), rnd.choice([0o2000, 0o3000, 0o40000])
            inner = rnd.choice([f". = {k2:o}", f".link {k2:o}", f" nop\n . = {k2:o}\n"])
            n = rnd.choice([1, 1, 2])
            expr = rnd.choice([f"{k1:o} + e9 - s9", f"e9 - s9 + {k1:o}", f"{k1:o} + (e9 - s9) * 2", f"{k1:o} + sz9"])
            pre = rnd.choice(["", "", " .byte 1, 2\n .even\n"]) if not inner.startswith(" nop") else ""
            lines = [f"s9: .repeat n9 {{ {inner} }}", "e9: nop", f"n9 = {n}", "sz9 = e9 - s9"]
            site = rnd.choice([f".link {expr}", f".link {expr}"])
            text = pre + "\n".join(lines + [site] if rnd.random() < 0.7 else lines[:2] + [site] + lines[2:]) + "\n"
            case = {"literal": "two-bases", "text": text, "value": 0, "how": "two-bases", "site": "hidden"}
            res["violations"].extend(run_case(case, cnt, root))
            res["evaluations"] += 1
            res["distinct"].append(f"two-bases|{inner.split()[0]}|{n}|{expr.split()[0]}")
    finally:
        shutil.rmtree(root, ignore_errors=True)
    return res


def run_literal(case, cnt):
    from vlib import asm
    if case["how"] == "two-bases":
        o = asm.assemble([("/c12/two.mac", case["text"])])
        cnt["hidden_second_bases"] = cnt.get("hidden_second_bases", 0) + 1
        if o.cls == "stall":
            return []
        if o.cls != "fail" or not o.errors:
            return [{"what": f"a base set inside a lazily compiled block AND by the written directive: expected a reported error, got {o.brief()} "
                             f"base {oct(o.base) if o.cls == 'ok' else None}; source {case['text']!r}", "case": case}]
        cnt["rejections_confirmed"] += 1
        return []
    lit, v, site = case["literal"], case["value"], case["site"]
    body = ".byte 1, 2, 3\n"
    src = {"link-first": f".link {lit}\n{body}", "dot-first": f". = {lit}\n{body}", "link-last": f"{body}.link {lit}\n"}[site]
    o = asm.assemble([("/c12/lit.mac", src)])
    cnt["literal_bases"] = cnt.get("literal_bases", 0) + 1
    if o.cls == "stall":
        return []
    if case["how"] == "bad8":
        if o.cls != "fail" or "invalid-number" not in o.ids("error"):
            return [{"what": f"literal base {lit!r} ({site}) is not a number (digit 8/9 without the decimal point): expected invalid-number, got {o.brief()}", "case": case}]
        cnt["rejections_confirmed"] += 1
        return []
    if -65536 < v < 65536:
        if o.cls != "ok" or o.base != v % 65536 or o.code != bytes([1, 2, 3]):
            return [{"what": f"literal base {lit!r} ({site}): expected base {v % 65536:#o}, got {o.brief()} base {o.base if o.cls == 'ok' else None}", "case": case}]
        cnt["bases_compared"] += 1
        return []
    if o.cls != "fail" or not o.errors:
        return [{"what": f"literal base {lit!r} ({site}) does not fit 16 bits: expected a reported error, got {o.brief()} base {oct(o.base) if o.cls == 'ok' else None}", "case": case}]
    cnt["rejections_confirmed"] += 1
    return []


def run_case(case, cnt=None, root=None):
    import shutil
    import tempfile
    from vlib import apm, refcheck
    if cnt is None:
        cnt = {}
    for k in DECIDING_COUNTERS + ["unmodelled"]:
        cnt.setdefault(k, 0)
    own = root is None
    if own:
        root = tempfile.mkdtemp(prefix="c12-", dir=os.getcwd())
    out = []
    try:
        if "literal" in case:
            return run_literal(case, cnt)
        prog = apm.from_json(case["prog"])
        c = {}
        verdict, msgs, o, texts = refcheck.run_prog_case(prog, root, c)
        cnt["rejections_expected"] += c.get("expected_rejections", 0)
        cnt["rejections_confirmed"] += c.get("rejections_confirmed", 0)
        cnt["unmodelled"] += c.get("unmodelled", 0)
        if verdict == "agree" and o.cls == "ok":
            cnt["bases_compared"] += 1
            if case["skip"].startswith("skip"):
                cnt["skips_checked"] += 1
        if verdict == "violation" and case["kind"] in ("self", "selfnonlin") and o.cls == "fail" and o.errors and \
                any(i in o.ids("error") for i in ("recursive-definition", "value-out-of-bounds")):
            # a self-dependent base has no value: the reference's fixed-point iteration may run out of range first; rejected is what counts
            verdict = "agree"
            cnt["rejections_confirmed"] += 1
        if verdict == "violation":
            src = " || ".join(f"{n}: " + " | ".join(t.splitlines()[:30]) for n, t in texts.items())
            v = {"what": f"link base ({case['tag']}, {case['skip']}): " + "; ".join(msgs)[:700] + " || " + src[:1200], "case": case}
            # listed finding D11: zero-net expression rejected with recursive-definition when parity-dependent statements are present
            address_dependent = case["skip"].startswith("skip") or any(
                (s.k == "simple" and s.d in (".even", ".odd")) or (s.k == "blk" and s.d == ".align") or (s.k == "dot" and not getattr(s, "is_base", False) and s is not prog.files[0].stmts[0])
                for f in list(prog.files) + list(prog.aux.values()) for s in f.stmts)
            zero_net = case["kind"] in ("diff", "diff2", "viasym", "shiftdiv", "dotlead-diff", "aliascoef", "chain2", "fwdmul", "mulright", "shadow")
            # ... and its two other listed shapes: a label reached through a chain of two or more symbols, a product of a label with a
            # constant that is defined through a later constant
            if o.cls == "fail" and "recursive-definition" in o.ids("error") and (address_dependent or case["kind"] in ("chain2", "fwdmul")) and zero_net:
                if msgs and msgs[0].startswith("valid program not assembled"):
                    v["known_key"] = "link-cancellation"
                    out.append(v)
                # the reference rejects the program for another reason (a backward skip, an out-of-range base) and the assembler stops
                # at the listed finding first: both reject, nothing to report
            else:
                out.append(v)
        return out
    finally:
        if own:
            shutil.rmtree(root, ignore_errors=True)
