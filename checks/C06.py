"""C06  Data directives store exactly the stated value or refuse.

Monitor: reference bytes from the abstract program (value mod 2^n little-endian; .dword high word first; strings through Python's
own codec of the selected charset after the generator's escape expansion; zero fill of exactly the stated / needed length)
compared with the bytes of the real assembler; the accept/reject expectation (|v| >= 2^n, negative count, unencodable character,
word data at an odd address, <n> outside 0-255) compared with the outcome class and the diagnostic identifier.
"""
import os
import random

PROPERTY = "C06"
LEVEL = "exploration"
RULE = ("every data directive (.byte/.db .word/.dw .dword .ascii .asciz .blkb .blkw .even .odd .align) x 0-8 operands x boundary values "
        "+-(2^n-1), +-2^n, 0, +-1 and random x every address parity; all escape forms and <n> bytes 0-255 (256, -1 rejected); .align 1-64 at 64 "
        "consecutive addresses; .blkb/.blkw 0, 1, random, 65535, -1; charsets bk, utf-8, koi8-r, latin-1, cp866 with strings from inside and "
        "outside each repertoire; boundaries exhaustive, random volume by tier; distinct = distinct (directive, boundary class, parity, charset)")
ASSUMPTIONS = ["string escapes denote code points which are then encoded in the output charset (so '\\xHH' above 0x7F is charset dependent)",
               ".align 0 is outside the stated modulus range 1-64 (it is a C08 case)",
               "when several operands of one program are out of range the assembler may stop at the first it meets: for multi-fault programs only 'rejected' is demanded"]
DECIDING_COUNTERS = ["programs", "data_bytes_compared", "rejections_expected", "rejections_confirmed"]
MIN_DISTINCT = 100

CHARSETS = ["bk", "utf-8", "koi8-r", "latin-1", "cp866"]
REPERTOIRE = {
    "bk": "ABCxyz019 !#$%&()*+,-.:;<=>?@[]^_{|}~абвгдеёжзийклмнопрстуфхцчшщъыьэюяАБВГДЯ",
    "utf-8": "ABCxyz019 !#$%&()*+,-.:;<=>?@[]^_{|}~абвяéüß€字𝄞",
    "koi8-r": "ABCxyz019 !#$%&()*+,-.:;<=>?@[]^_{|}~абвгдеёжзийклмнопрстуфхцчшщъыьэюяАБВЁ─│┌",
    "latin-1": "ABCxyz019 !#$%&()*+,-.:;<=>?@[]^_{|}~éüßÿ¡",
    "cp866": "ABCxyz019 !#$%&()*+,-.:;<=>?@[]^_{|}~абвгдеёяАБВЁ░▒▓│┤",
}
OUTSIDE = {"bk": "éü€字", "utf-8": "", "koi8-r": "éü€字", "latin-1": "абв€字", "cp866": "éü€字"}


def plan(tier, seed):
    n = 16 if tier == "quick" else 48
    total = 12000 if tier == "quick" else 300000
    return [{"part": i, "parts": n, "seed": seed, "tier": tier, "count": total // n} for i in range(n)]


def boundary_values(bits):
    m = 1 << bits
    return [0, 1, -1, m - 1, -(m - 1), m, -m, m + 1, -(m + 1), m // 2, m // 2 - 1, -(m // 2), -(m // 2) - 1, 2 * m, 255, 256, -255, -256]


def exhaustive_cases():
    """The finite boundary space: (tag, list of statements builder args)."""
    from vlib import apm
    cases = []
    for d, bits in ((".byte", 8), (".word", 16), (".dword", 32)):
        for v in boundary_values(bits):
            for parity in (0, 1):
                cases.append((f"{d}|{'in' if -(1 << bits) < v < (1 << bits) else 'out'}|v{v}|p{parity}", "value", d, v, parity))
        for parity in (0, 1):
            cases.append((f"{d}|nooperand|p{parity}", "noop", d, None, parity))
    for n in range(1, 65):
        cases.append((f".align|{n}", "align", n, None, None))
    for d in (".blkb", ".blkw"):
        for v in (0, 1, 2, 7, 255, 256, 1000, 65535, 65536, -1, -2, 40000):
            for parity in (0, 1):
                cases.append((f"{d}|{v}|p{parity}", "blk", d, v, parity))
    for n in (-1, 0, 1, 127, 128, 255, 256, 257, 65536):
        cases.append((f".ascii<{n}>", "chunk", n, None, None))
    for parity in (0, 1):
        cases.append((f".even|p{parity}", "evenodd", ".even", None, parity))
        cases.append((f".odd|p{parity}", "evenodd", ".odd", None, parity))
    return cases


def build_exhaustive(case, rnd):
    from vlib import apm
    tag, kind = case[0], case[1]
    base = rnd.choice([0o1000, 0o2000, 0, 0o40000])
    stmts = [apm.link(apm.num(base))]
    charset = "bk"
    if kind in ("value", "noop"):
        d, v, parity = case[2], case[3], case[4]
        if parity:
            stmts.append(apm.data(".byte", apm.num(7)))
        if kind == "noop":
            stmts.append(apm.data(d))
        else:
            n_before = rnd.randrange(0, 4)
            bits = {".byte": 8, ".word": 16, ".dword": 32}[d]
            ops = [apm.num(rnd.randrange(0, 1 << bits), rnd.choice([None, "d", "x"])) for _ in range(n_before)]
            ve = apm.num(v, rnd.choice([None, "d", "x"])) if rnd.random() < 0.6 else ("sym", "late")
            ops.append(ve)
            ops += [apm.num(rnd.randrange(0, 1 << bits)) for _ in range(rnd.randrange(0, 8 - n_before))]
            stmts.append(apm.data(d, *ops))
            if ve[0] == "sym":
                stmts.append(apm.assign("late", apm.num(v)))
        stmts.append(apm.label("after"))
        stmts.append(apm.data(".byte", apm.num(0o125)))
    elif kind == "align":
        n = case[2]
        k = rnd.randrange(0, 64)
        # 64 consecutive addresses are covered over the run: offset k random per case; exhaustive leg walks all of them below
        stmts += [apm.blk(".blkb", apm.num(k)), apm.blk(".align", apm.num(n, rnd.choice([None, "d"]))), apm.label("after"), apm.data(".byte", apm.num(1))]
    elif kind == "blk":
        d, v, parity = case[2], case[3], case[4]
        if parity:
            stmts.append(apm.data(".byte", apm.num(7)))
        stmts += [apm.blk(d, apm.num(v, "d") if rnd.random() < 0.5 else ("sym", "late")), apm.label("after"), apm.data(".byte", apm.num(3)), apm.assign("late", apm.num(v))]
    elif kind == "chunk":
        n = case[2]
        stmts += [apm.string(rnd.choice([".ascii", ".asciz"]), [("s", "ab"), ("n", apm.num(n, "d")), ("s", "c")]), apm.label("after"), apm.data(".byte", apm.num(3))]
    else:
        d, parity = case[2], case[4]
        if parity:
            stmts.append(apm.data(".byte", apm.num(7)))
        stmts += [apm.simple(d), apm.label("after"), apm.data(".byte", apm.num(0o252))]
    return apm.Program([apm.SrcFile("f0.mac", stmts)], charset=charset)


def gen_random(rnd):
    from vlib import apm
    charset = rnd.choice(CHARSETS)
    base = rnd.choice([0o1000, 0o1001 if rnd.random() < 0.1 else 0o2000, 0, 0o40000])
    stmts = [apm.link(apm.num(base))]
    tags = []
    consts = {}
    for _ in range(rnd.randrange(1, 10)):
        r = rnd.random()
        if r < 0.35:
            d = rnd.choice([".byte", ".word", ".dword"])
            bits = {".byte": 8, ".word": 16, ".dword": 32}[d]
            ops = []
            for _ in range(rnd.randrange(0, 9)):
                v = rnd.choice(boundary_values(bits) + [rnd.randrange(-(1 << bits) + 1, 1 << bits)] * 12)
                if rnd.random() < 0.12:
                    # a value computed from the address of the directive itself (every copy of a repeat body has its own)
                    ops.append(rnd.choice([("bin", "%", ("dot",), apm.num(rnd.choice([4, 7, 16]))), ("bin", "&", ("bin", "/", ("dot",), apm.num(2)), apm.num(0o177)),
                                           ("bin", "&", ("bin", ">>", ("dot",), apm.num(1)), apm.num(0o77)), ("bin", "&", ("bin", "<<", ("dot",), apm.num(1)), apm.num(0o376)),
                                           ("bin", "&", ("dot",), apm.num(0o377))]))
                elif rnd.random() < 0.12:
                    # a character literal as a data value: its bytes in the output charset, which then have to fit the field
                    pool = [c for c in REPERTOIRE[charset] if c.isalnum() or ord(c) > 0x7F]
                    ops.append(("chr", rnd.choice(pool) if rnd.random() < 0.7 else rnd.choice(pool) + rnd.choice(pool)))
                elif rnd.random() < 0.2:
                    nm = f"c{len(consts)}"
                    consts[nm] = v
                    ops.append(("sym", nm))
                else:
                    ops.append(apm.num(v, rnd.choice([None, "d", "x", "^D", "^X", "^O", "^B", "0o", "b"])))
            st = apm.data(d, *ops)
            if rnd.random() < 0.6 and bits > 8:
                stmts.append(apm.simple(".even"))
            stmts.append(st)
            tags.append(f"{d}|n{len(ops)}|{charset}")
        elif r < 0.7:
            chunks = []
            for _ in range(rnd.randrange(1, 5)):
                k = rnd.random()
                if k < 0.25:
                    v = rnd.choice([0, 1, 10, 127, 128, 255, rnd.randrange(256)])
                    if rnd.random() < 0.15:
                        chunks.append(("n", rnd.choice([("bin", "%", ("dot",), apm.num(rnd.choice([4, 7, 100]))), ("bin", "&", ("bin", "/", ("dot",), apm.num(2)), apm.num(0o177))])))
                    elif rnd.random() < 0.4:
                        # a code given by a constant that may be defined further down: the directive cannot be evaluated when it is met
                        nm = f"c{len(consts)}"
                        consts[nm] = v
                        chunks.append(("n", ("sym", nm)))
                    else:
                        chunks.append(("n", apm.num(v if rnd.random() < 0.9 else -v, rnd.choice([None, "d", "x", "^D", "^X", "^O"]))))
                else:
                    pool = REPERTOIRE[charset] + ("\n\t\r\\'\"/\x01\x7f" if rnd.random() < 0.5 else "")
                    if rnd.random() < 0.08 and OUTSIDE[charset]:
                        pool = OUTSIDE[charset]
                    elif rnd.random() < 0.08:
                        pool = "ABCxyz019 \x7f\x7f"          # DEL among plain ASCII: a byte of every charset but 'bk' (0x7f is U+25A0 there)
                    chunks.append(("s", "".join(rnd.choice(pool) for _ in range(rnd.randrange(0, 12)))))
            st = apm.string(rnd.choice([".ascii", ".asciz"]), chunks)
            st.quote = rnd.choice("\"'/")
            stmts.append(st)
            tags.append(f"{st.d}|chunks{len(chunks)}|{charset}")
        elif r < 0.8:
            v = rnd.choice([0, 1, 2, 5, 100, 1000, -1, -2, -3])
            stmts.append(apm.blk(rnd.choice([".blkb", ".blkw"]), apm.num(v, rnd.choice([None, "d", "^D", "^O", "^X"]))))
            tags.append(f"blk|{v}|{charset}")
        elif r < 0.9:
            stmts.append(apm.simple(rnd.choice([".even", ".odd"])))
            tags.append("evenodd")
        else:
            n_al = rnd.randrange(1, 65) if rnd.random() < 0.85 else rnd.choice([0, -1, -2, -4, -64, 65536, 0o200000])
            stmts.append(apm.blk(".align", apm.num(n_al, rnd.choice([None, "d"]))))
            tags.append("align" if n_al > 0 else f"align|{n_al}")
    # some statements become the body of a '.repeat' (with an alignment directive ahead of an odd-sized payload): every copy is laid
    # out at its own address
    for i in range(1, len(stmts)):
        if rnd.random() < 0.15 and stmts[i].k in ("data", "str", "blk", "simple"):
            lead = rnd.choice([[apm.simple(".even")], [apm.simple(".odd")], [apm.blk(".align", apm.num(rnd.choice([2, 4, 3])))], []])
            tail = rnd.choice([[apm.data(".byte", apm.num(rnd.randrange(256)))], []])
            stmts[i] = apm.repeat(apm.num(rnd.choice([2, 3, 4])), lead + [stmts[i]] + tail)
            tags.append("repeat|" + (lead[0].d if lead else "-") + f"|{charset}")
    stmts.append(apm.label("tail"))
    stmts.append(apm.data(".byte", apm.num(0o125)))
    aux = {}
    r_lay = rnd.random()
    if r_lay < 0.2:
        # the base is stated after the code (odd bases too): parity of every address is unknown while the statements are compiled
        link = stmts.pop(0)
        if rnd.random() < 0.3:
            link = apm.link(apm.num(rnd.choice([0o1001, 0o2001, 0o40001, 1])))
        stmts.append(link)
        tags.append(f"link-last|{charset}")
    elif r_lay < 0.4 and len(stmts) > 4:
        # the second half of the statements in an included file, which then starts at whatever parity the first half ends on
        k = rnd.randrange(2, len(stmts) - 1)
        aux["tail6.mac"] = apm.SrcFile("tail6.mac", stmts[k:])
        stmts = stmts[:k] + [apm.include("tail6.mac")]
        tags.append(f"included-tail|{charset}")
    elif r_lay < 0.55 and len(stmts) > 5:
        # three or four source files linked one after the other: each starts at whatever address (and parity) the files before it end on
        for nm, v in consts.items():
            stmts.insert(rnd.randrange(1, len(stmts) + 1), apm.assign(nm, apm.num(v), extern=True))
        nf = rnd.choice([3, 3, 4])
        cuts = sorted(rnd.sample(range(1, len(stmts)), nf - 1))
        parts = [stmts[a:b] for a, b in zip([0] + cuts, cuts + [len(stmts)])]
        tags.append(f"linked-files|{nf}|{charset}")
        return apm.Program([apm.SrcFile(f"f{i}.mac", part) for i, part in enumerate(parts)], charset=charset), tags
    for nm, v in consts.items():
        stmts.insert(rnd.randrange(1, len(stmts) + 1), apm.assign(nm, apm.num(v)))
    return apm.Program([apm.SrcFile("f0.mac", stmts)], aux=aux, charset=charset), tags


def run_shard(spec):
    import shutil
    import tempfile
    from vlib import apm
    rnd = random.Random(spec["seed"] * 141650939 + spec["part"])
    res = {"evaluations": 0, "distinct": [], "counters": {k: 0 for k in DECIDING_COUNTERS}, "sets": {"charsets": [], "directives": []},
           "samples": [], "violations": [], "inconclusive": []}
    cnt = res["counters"]
    cnt["align_points"] = 0
    root = tempfile.mkdtemp(prefix="c06-", dir=os.getcwd())
    try:
        ex = exhaustive_cases()
        for j, c in enumerate(ex):
            if j % spec["parts"] != spec["part"]:
                continue
            prog = build_exhaustive(c, rnd)
            case = {"kind": "boundary", "tag": c[0], "prog": apm.to_json(prog), "style_seed": rnd.randrange(1 << 30),
                    "single": not ("|out|" in c[0] and c[0].endswith("|p1"))}     # out of range AND odd address: either diagnostic is right
            res["violations"].extend(run_case(case, cnt, root))
            res["evaluations"] += 1
            cnt["programs"] += 1
            res["distinct"].append(c[0])
        # .align 1..64 at 64 consecutive addresses: exhaustive grid, split over shards
        for n in range(1 + spec["part"], 65, spec["parts"]):
            stmts = [apm.link(apm.num(0o2000))]
            for k in range(64):
                stmts += [apm.blk(".align", apm.num(64)), apm.blk(".blkb", apm.num(k)), apm.blk(".align", apm.num(n, "d")), apm.data(".byte", apm.num(0o377))]
            prog = apm.Program([apm.SrcFile("f0.mac", stmts)])
            case = {"kind": "aligngrid", "tag": f"aligngrid|{n}", "prog": apm.to_json(prog), "style_seed": 1, "single": False}
            res["violations"].extend(run_case(case, cnt, root))
            cnt["align_points"] += 64
            res["evaluations"] += 1
            res["distinct"].append(f"aligngrid|{n}")
        for i in range(spec["count"]):
            prog, tags = gen_random(rnd)
            case = {"kind": "random", "prog": apm.to_json(prog), "style_seed": rnd.randrange(1 << 30), "single": False}
            res["violations"].extend(run_case(case, cnt, root))
            res["evaluations"] += 1
            cnt["programs"] += 1
            res["distinct"].extend(tags)
            res["sets"]["charsets"].append(prog.charset)
            res["sets"]["directives"].extend(t.split("|")[0] for t in tags)
            if i < 1:
                res["samples"].append({"charset": prog.charset, "text": apm.r_file(prog.files[0]).splitlines()[:12]})
    finally:
        shutil.rmtree(root, ignore_errors=True)
    return res


def run_case(case, cnt=None, root=None):
    import shutil
    import tempfile
    from vlib import apm, refcheck
    if cnt is None:
        cnt = {}
    for k in DECIDING_COUNTERS:
        cnt.setdefault(k, 0)
    own = root is None
    if own:
        root = tempfile.mkdtemp(prefix="c06-", dir=os.getcwd())
    out = []
    try:
        prog = apm.from_json(case["prog"])
        srnd = random.Random(case["style_seed"])
        style = apm.Style(srnd, escapes=srnd.choice([0, 0.3, 0.8]), case=srnd.choice([0, 0.5]), ws=srnd.choice([0, 0.3]), synonyms=srnd.choice([0, 0.5]))
        c = {}
        verdict, msgs, o, texts = refcheck.run_prog_case(prog, root, c, style=style)
        for k in ("data_bytes_compared", "expected_rejections", "rejections_confirmed"):
            if k in c:
                cnt[{"expected_rejections": "rejections_expected"}.get(k, k)] = cnt.get({"expected_rejections": "rejections_expected"}.get(k, k), 0) + c[k]
        if verdict == "violation" and not case.get("single") and o.cls == "fail" and o.errors and msgs and msgs[0].startswith("rejected, but without"):
            verdict = "agree"
            cnt["rejections_confirmed"] += 1
        if verdict == "violation":
            out.append({"what": f"{case.get('tag', 'data')} (charset {prog.charset}): " + "; ".join(msgs)[:900] + " || source: " + " | ".join(list(texts.values())[0].splitlines()[:8])[:500],
                        "case": case})
        return out
    finally:
        if own:
            shutil.rmtree(root, ignore_errors=True)
