"""C11  Symbol scoping and linking.

Monitor: reference scoping model (vlib/apm.py Ref: local labels between ordinary labels of a file, private ordinary symbols per
file / included file, exported names global, own definition first) predicts for every reference the defining occurrence - hence
its value - or 'error'; every definition has a unique value, so a probe word identifies the definition that was bound.
Compared with the real assembler through probe words ('.word name') and the outcome class (undefined-symbol / duplicate-symbol).
"""
import os
import random

PROPERTY = "C11"
LEVEL = "exploration"
RULE = ("1-3 linked files x include trees of depth <= 3 x local names reused in >= 3 scopes x private names reused across files x all export "
        "forms ('::', '==', '.extern name' before/after the definition, '.extern all' before/after) x use before/after definition and export x "
        "planted invisibility, out-of-scope local references and duplicate definitions; distinct = distinct programs with a reused name in >= 2 scopes")
ASSUMPTIONS = ["exporting the same symbol twice ('x::' plus '.extern x') is not generated: the statement does not say whether that is an error",
               "references from inside .repeat bodies belong to C16"]
DECIDING_COUNTERS = ["programs", "probe_words_compared", "rejections_expected", "rejections_confirmed"]
MIN_DISTINCT = 100

PRIVATE_POOL = ["alpha", "beta", "gamma", "delta", "kappa"]
LOCALS = ["1$", "2$", "10$", "7"]


def plan(tier, seed):
    n = 16 if tier == "quick" else 48
    total = 3000 if tier == "quick" else 300000
    return [{"part": i, "parts": n, "seed": seed, "tier": tier, "count": total // n} for i in range(n)]


class UniqueValues:
    def __init__(self, rnd):
        self.rnd = rnd
        self.used = set()

    def next(self):
        while True:
            v = self.rnd.randrange(0o20000, 0o177000)
            if v not in self.used:
                self.used.add(v)
                return v


def gen_unit(rnd, uid, uniq, exported_here, foreign_exports, depth, aux, opts):
    """One source file (linked or included).  Returns list of statements."""
    from vlib import apm
    stmts = []
    extern_all_at = None
    mode = rnd.random()
    use_extern_all = opts.get("extern_all") and rnd.random() < 0.25
    if use_extern_all and rnd.random() < 0.5:
        stmts.append(apm.extern("all"))
        extern_all_at = "before"
    priv = rnd.sample(PRIVATE_POOL, rnd.randrange(1, 4))
    defs = []          # (name, kind, exported_how)
    for n in priv:
        defs.append([n, rnd.choice(["label", "const"]), None])
    for n in exported_here:
        if use_extern_all:
            defs.append([n, rnd.choice(["label", "const"]), "all"])
        else:
            defs.append([n, rnd.choice(["label", "const"]), rnd.choice(["inline", "inline", "extern-before", "extern-after"])])
    rnd.shuffle(defs)
    refs_pool = [d[0] for d in defs] + list(foreign_exports)

    def probes(k):
        out = []
        for _ in range(k):
            if refs_pool:
                out.append(apm.data(".word", ("sym", rnd.choice(refs_pool))))
        return out

    before = [n for n, kind, how in defs if how == "extern-before"]
    if len(before) >= 2 and rnd.random() < 0.6:
        # several names in one directive
        stmts.append(apm.extern(*before))
    else:
        for n in before:
            stmts.append(apm.extern(n))
    after_together = [] if rnd.random() < 0.5 else None
    if rnd.random() < 0.5:
        # local labels in the scope that is open at the head of the unit, before its first ordinary label: the same local names are
        # used at the tail of other units and in the includer's open scope, which must stay separate scopes
        loc = rnd.choice(LOCALS)
        if rnd.random() < 0.5:
            stmts += [apm.label(loc), apm.data(".word", ("loc", loc), apm.num(uniq.next() & 0o177777))]
        else:
            stmts += [apm.data(".word", ("loc", loc), apm.num(uniq.next() & 0o177777)), apm.label(loc), apm.data(".byte", apm.num(3), apm.num(4))]
    stmts += probes(rnd.randrange(1, 4))           # uses before any definition
    nscopes = 0
    for n, kind, how in defs:
        if kind == "label":
            stmts.append(apm.label(n, extern=(how == "inline")))
            stmts.append(apm.data(".word", apm.num(uniq.next() & 0o177777)))
            nscopes += 1
            # a new local scope starts here: reuse the local names
            if rnd.random() < 0.8:
                loc = rnd.choice(LOCALS)
                order = rnd.random() < 0.5
                if order:
                    stmts.append(apm.label(loc))
                    stmts.append(apm.data(".word", ("loc", loc), apm.num(nscopes)))
                else:
                    stmts.append(apm.data(".word", ("loc", loc), apm.num(nscopes)))
                    stmts.append(apm.label(loc))
                    stmts.append(apm.data(".byte", apm.num(1), apm.num(2)))
        else:
            stmts.append(apm.assign(n, apm.num(uniq.next()), extern=(how == "inline")))
        if how == "extern-after":
            if after_together is None:
                stmts.append(apm.extern(n))
            else:
                after_together.append(n)
        stmts += probes(rnd.randrange(0, 3))
        if depth < 3 and opts.get("include") and rnd.random() < 0.2:
            inc_name = f"inc{uid}_{len(aux)}.mac"
            sub_exports = []
            aux[inc_name] = None
            sub = gen_unit(rnd, f"{uid}i", uniq, sub_exports, list(foreign_exports) + list(exported_here), depth + 1, aux, dict(opts, extern_all=False))
            aux[inc_name] = apm.SrcFile(inc_name, sub)
            stmts.append(apm.include(inc_name))
    if use_extern_all and extern_all_at is None:
        stmts.append(apm.extern("all"))
    if after_together:
        stmts.append(apm.extern(*after_together))
    stmts += probes(rnd.randrange(1, 4))
    if rnd.random() < 0.4:
        # ... and in the scope that is still open at the tail of the unit
        loc = rnd.choice(LOCALS)
        already = any(l[0] == loc for s2 in stmts[-12:] for l in s2.labels)
        if not already and not any(s2.labels and s2.labels[0][1] == "local" for s2 in stmts[-8:]):
            stmts += [apm.label("tail" + uid.replace("i", "n")), apm.data(".word", apm.num(uniq.next() & 0o177777)), apm.label(loc), apm.data(".word", ("loc", loc))]
    return stmts


def gen_program(rnd):
    from vlib import apm
    uniq = UniqueValues(rnd)
    nfiles = rnd.choice([1, 2, 2, 3, 3])
    export_names = [f"exp{c}" for c in "abcdef"]
    rnd.shuffle(export_names)
    per_file = []
    for i in range(nfiles):
        k = rnd.randrange(0, 3)
        per_file.append([export_names.pop() for _ in range(k)])
    all_exports = [n for lst in per_file for n in lst]
    aux = {}
    files = []
    opts = {"include": rnd.random() < 0.5, "extern_all": rnd.random() < 0.5}
    for i in range(nfiles):
        foreign = [n for n in all_exports if n not in per_file[i]]
        stmts = gen_unit(rnd, str(i), uniq, per_file[i], foreign, 1, aux, opts)
        files.append(apm.SrcFile(f"f{i}.mac", stmts))
    plant = None
    if rnd.random() < 0.3:
        plant = rnd.choice(["invisible", "dup", "dup-export", "local-out-of-scope", "own-shadows-export", "dup-export-include", "local-across-units",
                            "own-shadows-include-export", "dup-local", "dup-case"])
        f = rnd.choice(files)
        if plant == "invisible":
            others = [n for n in PRIVATE_POOL if not any(n in [l[0] for l in s.labels] or getattr(s, "name", None) == n for s in f.stmts)]
            if others:
                f.stmts.insert(rnd.randrange(len(f.stmts) + 1), apm.data(".word", ("sym", rnd.choice(others))))
            else:
                f.stmts.append(apm.data(".word", ("sym", "nowhere")))
        elif plant == "dup":
            cands = [s for s in f.stmts if (s.k == "assign") or (s.k == "nop" and s.labels and s.labels[0][1] != "local")]
            if cands:
                s = rnd.choice(cands)
                name = s.name if s.k == "assign" else s.labels[0][0]
                new = apm.assign(name, apm.num(uniq.next())) if rnd.random() < 0.5 else apm.label(name)
                f.stmts.insert(rnd.randrange(len(f.stmts) + 1), new)
            else:
                plant = None
        elif plant == "dup-local":
            # the same local name twice inside ONE scope (no ordinary label in between)
            loc = rnd.choice(["1$", "7", "10$", "23"])
            f.stmts += [apm.label("dlscope"), apm.label(loc), apm.data(".word", ("loc", loc), apm.num(1)), apm.label(loc), apm.data(".word", apm.num(2))]
        elif plant == "dup-case":
            # a second definition that differs from the first only in letter case: names are case-insensitive
            cands = [s2 for s2 in f.stmts if (s2.k == "assign") or (s2.k == "nop" and s2.labels and s2.labels[0][1] != "local")]
            if cands:
                s2 = rnd.choice(cands)
                name = s2.name if s2.k == "assign" else s2.labels[0][0]
                other = name.upper() if name != name.upper() else name.lower()
                if other != name:
                    f.stmts.insert(rnd.randrange(len(f.stmts) + 1), apm.assign(other, apm.num(uniq.next() & 0o77777)) if rnd.random() < 0.7 else apm.label(other))
                else:
                    plant = None
            else:
                plant = None
        elif plant == "dup-export":
            if len(files) >= 2 and all_exports:
                name = rnd.choice(all_exports)
                owner = next(i for i, lst in enumerate(per_file) if name in lst)
                other = rnd.choice([x for x in range(len(files)) if x != owner])
                files[other].stmts.append(apm.assign(name, apm.num(uniq.next()), extern=True))
            else:
                plant = None
        elif plant == "dup-export-include":
            # '.extern NAME' first, then an include that exports NAME itself, then NAME's own definition: two exports of one name
            inc = f"incdup{len(aux)}.mac"
            how = rnd.choice(["label", "const", "all"])
            body = [apm.label("dupexp", extern=True), apm.data(".word", apm.num(1))] if how == "label" else \
                ([apm.assign("dupexp", apm.num(uniq.next()), extern=True)] if how == "const" else [apm.extern("all"), apm.label("dupexp"), apm.data(".word", apm.num(2))])
            aux[inc] = apm.SrcFile(inc, body)
            f.stmts[0:0] = [apm.extern("dupexp"), apm.include(inc)]
            f.stmts.append(apm.label("dupexp"))
            f.stmts.append(apm.data(".word", apm.num(3)))
        elif plant == "own-shadows-include-export":
            # the exporter is an INCLUDED file (also when only one file is linked); the includer uses the name after the include and
            # defines its own further down: the own definition is the one meant
            inc = f"incshd{len(aux)}.mac"
            how = rnd.choice(["const", "label"])
            aux[inc] = apm.SrcFile(inc, [apm.assign("shdinc", apm.num(uniq.next() & 0o77777), extern=True)] if how == "const" else
                                   [apm.label("shdinc", extern=True), apm.data(".word", apm.num(uniq.next() & 0o177777))])
            use = rnd.choice([[apm.insn("mov", ("imm", ("sym", "shdinc")), ("reg", 0))], [apm.data(".byte", ("bin", "&", ("sym", "shdinc"), apm.num(0o377))), apm.simple(".even")],
                              [apm.assign("viainc", ("bin", "+", ("sym", "shdinc"), apm.num(1))), apm.data(".word", ("sym", "viainc"))], [apm.data(".word", ("sym", "shdinc"))]])
            f.stmts[0:0] = [apm.include(inc)] + use
            f.stmts.append(apm.assign("shdinc", apm.num(uniq.next() & 0o77777)))
        elif plant == "local-across-units":
            # a reference at the head of a later unit to a local label that only the previous unit's tail scope defines
            if len(files) >= 2:
                files[0].stmts += [apm.label("lastlab"), apm.data(".word", apm.num(uniq.next() & 0o177777)), apm.label("88$"), apm.data(".word", apm.num(5))]
                files[1].stmts.insert(0, apm.data(".word", ("loc", "88$")))
            else:
                plant = None
        elif plant == "local-out-of-scope":
            # a reference right after a fresh ordinary label, to a local name that is defined only in other scopes
            f.stmts.append(apm.label("scopebrk"))
            f.stmts.append(apm.data(".word", ("loc", "99$")))
            f.stmts.append(apm.label("scopeend"))
            f.stmts.append(apm.label("99$"))
            f.stmts.append(apm.data(".word", apm.num(1)))
        else:
            if len(files) >= 2 and all_exports:
                name = rnd.choice(all_exports)
                owner = next(i for i, lst in enumerate(per_file) if name in lst)
                other = rnd.choice([x for x in range(len(files)) if x != owner])
                # a private definition of the exported spelling, defined AFTER its use: the own definition must win, whatever
                # has been compiled in that file before the use (a finished '.repeat' block, an include) and however it is used
                use = rnd.choice([apm.data(".word", ("sym", name)), apm.insn("mov", ("imm", ("sym", name)), ("reg", 0)),
                                  apm.assign("viaown", ("bin", "+", ("sym", name), apm.num(1)))])
                head = [use] + ([apm.data(".word", ("sym", "viaown"))] if use.k == "assign" else [])
                if rnd.random() < 0.5:
                    head = [apm.repeat(apm.num(rnd.choice([1, 2])), [apm.insn("nop")])] + head
                files[other].stmts[0:0] = head
                files[other].stmts.append(apm.assign(name, apm.num(uniq.next() & 0o77777)))
            else:
                plant = None
    if rnd.random() < 0.2:
        # a forward skip whose length is a difference of two local labels that are defined right after it; the following scope reuses the
        # same local names at another distance.  The skip can only be evaluated later: it is still an expression of ITS scope
        la, lb = rnd.sample(LOCALS, 2) if len(LOCALS) >= 2 else ("1$", "2$")
        m1, m2 = rnd.sample(range(1, 7), 2)
        tail = files[-1].stmts
        tail += [apm.simple(".even"), apm.label("skpa7"),
                 apm.dotassign(("bin", "-", ("bin", "+", ("bin", "+", ("sym", "skpa7"), apm.num(2 * rnd.randrange(0, 4))), ("loc", lb)), ("loc", la))),
                 apm.label(la), apm.data(".byte", *[apm.num(uniq.next() & 0o377) for _ in range(m1)]), apm.label(lb), apm.data(".byte", apm.num(0o377)),
                 apm.label("skpb7"), apm.label(la), apm.data(".byte", *[apm.num(uniq.next() & 0o377) for _ in range(m2)]), apm.label(lb), apm.data(".byte", apm.num(0o125))]
    if rnd.random() < 0.2:
        # a helper file with PRIVATE names, included from two places (two files, or twice from one): every inclusion has a namespace of its own
        aux["twice11.mac"] = apm.SrcFile("twice11.mac", [apm.label("twpriv"), apm.data(".word", ("sym", "twpriv"), apm.num(uniq.next() & 0o177777)),
                                                          apm.assign("twk", apm.num(uniq.next() & 0o77777)), apm.data(".word", ("sym", "twk")),
                                                          apm.label("1$"), apm.data(".word", ("loc", "1$"))])
        for _ in range(2):
            rnd.choice(files).stmts.append(apm.include("twice11.mac"))
    base = rnd.choice([0o1000, 0o2000, 0])
    files[0].stmts.insert(0, apm.link(apm.num(base)))
    return apm.Program(files, aux), plant


def reused_in_two_scopes(prog):
    names = {}
    for f in list(prog.files) + list(prog.aux.values()):
        seen = set()
        for s in f.stmts:
            for n, kind in s.labels:
                seen.add(n)
            if s.k == "assign":
                seen.add(s.name)
        for n in seen:
            names[n] = names.get(n, 0) + 1
    locs = sum(1 for f in prog.files for s in f.stmts for n, kind in s.labels if kind == "local")
    return any(v >= 2 for v in names.values()) or locs >= 2


def run_shard(spec):
    import shutil
    import tempfile
    from vlib import apm
    rnd = random.Random(spec["seed"] * 553105253 + spec["part"])
    res = {"evaluations": 0, "distinct": [], "counters": {k: 0 for k in DECIDING_COUNTERS}, "sets": {"plants": [], "verdicts": []},
           "samples": [], "violations": [], "inconclusive": []}
    cnt = res["counters"]
    cnt["unmodelled"] = 0
    root = tempfile.mkdtemp(prefix="c11-", dir=os.getcwd())
    try:
        for i in range(spec["count"]):
            prog, plant = gen_program(rnd)
            case = {"prog": apm.to_json(prog), "plant": plant}
            res["violations"].extend(run_case(case, cnt, root))
            res["evaluations"] += 1
            cnt["programs"] += 1
            res["sets"]["plants"].append(str(plant))
            if reused_in_two_scopes(prog):
                res["distinct"].append(repr(case["prog"]["files"])[:4000])
            if i < 1:
                res["samples"].append({"plant": plant, "files": {f.name: apm.r_file(f).splitlines()[:16] for f in prog.files}})
        for i in range(max(2, spec["count"] // 12)):
            prog, plant = gen_many_scopes(rnd)
            case = {"prog": apm.to_json(prog), "plant": plant}
            res["violations"].extend(run_case(case, cnt, root))
            res["evaluations"] += 1
            cnt["programs"] += 1
            res["sets"]["plants"].append(plant)
            res["distinct"].append(repr(case["prog"]["files"])[:4000])
    finally:
        shutil.rmtree(root, ignore_errors=True)
    return res


def gen_many_scopes(rnd):
    """Dozens of local scopes in 1-2 units, local names of one to three digits whose digits line up with scope numbers ('13$' in an
    early scope, '3$' in the eleventh ...): every scope is its own name space however the names are spelled."""
    from vlib import apm
    nfiles = rnd.choice([1, 2])
    files = []
    word = [0]

    def w():
        word[0] += 1
        return apm.num((word[0] * 2654435761) & 0o177777)
    tails = rnd.sample(["0$", "1$", "2$", "3$", "7$", "3", "5"], 3)
    for fi in range(nfiles):
        stmts = []
        for sc in range(rnd.randrange(12, 45)):
            stmts.append(apm.label(f"s{fi}x{sc}"))
            stmts.append(apm.data(".word", w()))
            names = []
            if sc < 6 and rnd.random() < 0.8:
                names += [str(d) + t for d in rnd.sample(range(1, 5), 2) for t in tails[:2]]      # '13$', '23', ...
            if rnd.random() < 0.7:
                names += rnd.sample(tails, rnd.randrange(1, 3))
            names = [n for i, n in enumerate(names) if n not in names[:i]]
            for n in names:
                # referred to as data and as a branch target (a bare number in a branch operand IS a local label)
                bn = rnd.choice(["br", "bne", "sob", None, None])
                br = [apm.insn(bn, *([("reg", 2)] if bn == "sob" else []), ("br", ("loc", n)))] if bn else []
                if rnd.random() < 0.5:
                    stmts += [apm.label(n), apm.data(".word", ("loc", n), w())] + br
                else:
                    stmts += ([b for b in br if b.name != "sob"]) + [apm.data(".word", ("loc", n), w()), apm.label(n), apm.data(".word", w())]
        files.append(apm.SrcFile(f"f{fi}.mac", stmts))
    plant = "many-scopes"
    if rnd.random() < 0.4:
        # a reference to a name that only OTHER scopes define: must be reported, not bound to one of them
        f = rnd.choice(files)
        t = rnd.choice(tails)
        f.stmts += [apm.label("lonely" + f.name[1]), apm.data(".word", ("loc", t)), apm.label("lonelyend" + f.name[1]), apm.label(t), apm.data(".word", w())]
        plant = "many-scopes-undefined"
    files[0].stmts.insert(0, apm.link(apm.num(rnd.choice([0o1000, 0o2000, 0]))))
    return apm.Program(files), plant


def run_case(case, cnt=None, root=None):
    import shutil
    import tempfile
    from vlib import apm, refcheck
    if cnt is None:
        cnt = {}
    for k in DECIDING_COUNTERS + ["unmodelled"]:
        cnt.setdefault(k, 0)
    own = root is None
    if own:
        root = tempfile.mkdtemp(prefix="c11-", dir=os.getcwd())
    out = []
    try:
        prog = apm.from_json(case["prog"])
        c = {}
        verdict, msgs, o, texts = refcheck.run_prog_case(prog, root, c)
        cnt["probe_words_compared"] += c.get("data_statements_compared", 0)
        cnt["rejections_expected"] += c.get("expected_rejections", 0)
        cnt["rejections_confirmed"] += c.get("rejections_confirmed", 0)
        cnt["unmodelled"] += c.get("unmodelled", 0)
        if verdict == "violation":
            src = " || ".join(f"{n}: " + " | ".join(t.splitlines()[:40]) for n, t in texts.items())
            out.append({"what": f"scoping (plant {case['plant']}): " + "; ".join(msgs)[:700] + " || " + src[:1500], "case": case})
        return out
    finally:
        if own:
            shutil.rmtree(root, ignore_errors=True)
