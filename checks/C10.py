"""C10  Spelling does not matter.

Monitor: metamorphic checker over real runs.  One abstract program is rendered under the canonical spelling and under k random
compositions of the rewrite rules (letter case of mnemonics/directives/registers/symbols/radix prefixes/hex digits; whitespace,
blank lines, comments; radix of numbers; ( ) vs < > vs ^x...x; rN vs %N, sp/pc vs r6/r7; mnemonic and directive synonyms;
explicit vs implicit .word; (rN) vs @rN); (status, base, bytes) must be identical, warnings aside.  The practice corpus is
respelled with the context-free-safe subset of the rules.
"""
import glob
import os
import random
import re

PROPERTY = "C10"
LEVEL = "exploration"
RULE = ("every generated program (tight generator: instructions, data, strings, repeats, includes, 1-3 files, exported symbols "
        "referenced across files in another letter case) x k = 6 (quick) / 30 (thorough) random style compositions, plus each of the 21 "
        "practice programs x 3 (quick) / 10 safe respellings; distinct = distinct (program, style) pairs whose text differs from the canonical one")
ASSUMPTIONS = ["the corpus respeller only applies rules that are safe without parsing: it never touches lines with quotes, apostrophes, slashes, "
               "file paths or literal-text directives, and never digits",
               "warnings are allowed to differ between spellings (legacy-deferred, implicit-index, ...)"]
DECIDING_COUNTERS = ["programs", "variants_compared", "corpus_variants_compared"]
MIN_DISTINCT = 100


def plan(tier, seed):
    n = 16 if tier == "quick" else 48
    total = 700 if tier == "quick" else 30000
    return [{"part": i, "parts": n, "seed": seed, "tier": tier, "count": total // n, "k": 6 if tier == "quick" else 30,
             "kc": 3 if tier == "quick" else 10} for i in range(n)]


SAFE_LINE = re.compile(r"^[^\"'/\\]*$")
LITERAL_DIRECTIVES = re.compile(r"\.(error|title|sbttl|ident|include|ascii|asciz|rad50)|insert_file|make_", re.I)


def respell_corpus(text, rnd):
    """Context-free-safe respelling of real source text."""
    out = []
    mode = rnd.choice(["upper", "lower", "keep", "keep"])
    for line in text.split("\n"):
        code, sep, comment = line.partition(";")
        safe = bool(SAFE_LINE.match(code)) and not LITERAL_DIRECTIVES.search(code)
        if safe and code.strip():
            if mode == "upper":
                code = code.upper()
            elif mode == "lower":
                code = code.lower()
            if rnd.random() < 0.3:
                code = re.sub(r"(?<![A-Za-z0-9_$.%])[rR]([0-7])(?![A-Za-z0-9_$.:])", r"%\1", code)
            if rnd.random() < 0.2:
                code = re.sub(r"(?<![A-Za-z0-9_$.%])(sp|SP)(?![A-Za-z0-9_$.:])", "r6", code)
                code = re.sub(r"(?<![A-Za-z0-9_$.%])(pc|PC)(?![A-Za-z0-9_$.:])", "r7", code)
            if rnd.random() < 0.3:
                code = rnd.choice(["  ", "\t", ""]) + code.rstrip() + rnd.choice(["", "  ", "\t"])
            if not sep and rnd.random() < 0.2:
                sep, comment = ";", rnd.choice([" added comment", "mov r0, r1", "\"'{}"])
        out.append(code + sep + comment)
        if rnd.random() < 0.05 and safe:
            out.append(rnd.choice(["", "   ", "; blank"]))
    return "\n".join(out)


def gen_bracket_program(rnd):
    """Word lists of deeply bracketed arithmetic: every grouping style (and every caret delimiter) nested in every other."""
    from vlib import apm
    consts = {f"bk{i}": rnd.randrange(1, 200) for i in range(5)}

    def expr(d):
        if d <= 0 or rnd.random() < 0.2:
            return rnd.choice([apm.num(rnd.randrange(0, 64)), ("sym", rnd.choice(sorted(consts)))])
        op = rnd.choice(["+", "-", "*", "|", "&", "/", "|", "/"])
        rhs = apm.num(rnd.randrange(1, 9)) if op == "/" else expr(d - 1)
        return ("bin", op, expr(d - 1), rhs)
    stmts = [apm.link(apm.num(rnd.choice([0o1000, 0o2000])))]
    stmts += [apm.assign(n, apm.num(v)) for n, v in consts.items()]
    for _ in range(rnd.randrange(4, 12)):
        e = ("bin", "&", ("grp", expr(rnd.randrange(2, 6))), apm.num(0o177777))
        r = rnd.random()
        if r < 0.2:
            # an implicit word list that begins with a name and goes on with an operator that cannot start a statement
            op = rnd.choice(["*", "/", "<<", ">>", "&", "|", "!", "*"])
            rhs = apm.num(rnd.randrange(1, 5))
            stmts.append(apm.wordlist(("bin", "&", ("bin", op, ("sym", rnd.choice(sorted(consts))), rhs), apm.num(0o177777)) if op in ("<<", "*") else
                                      ("bin", op, ("sym", rnd.choice(sorted(consts))), rhs), apm.num(rnd.randrange(100))))
            stmts[-1].name_led = True
        elif r < 0.6:
            stmts.append(apm.data(".word", e))
        elif r < 0.8:
            stmts.append(apm.insn("mov", ("imm", e), ("reg", rnd.randrange(6))))
        else:
            stmts.append(apm.insn("clr", ("idx", ("bin", "&", ("grp", e), apm.num(0o777)), rnd.randrange(6))))
    return apm.Program([apm.SrcFile("f0.mac", stmts)])


def run_shard(spec):
    import shutil
    import tempfile
    from vlib import apm, asm, forked, meta, tight  # noqa: F401  (everything imported before the first fork)
    rnd = random.Random(spec["seed"] * 982451653 + spec["part"])
    res = {"evaluations": 0, "distinct": [], "counters": {k: 0 for k in DECIDING_COUNTERS}, "sets": {"style_features": []},
           "samples": [], "violations": [], "inconclusive": []}
    cnt = res["counters"]
    cnt["variants_identical_text"] = 0
    root = tempfile.mkdtemp(prefix="c10-", dir=os.getcwd())
    try:
        for i in range(spec["count"]):
            if i % 3 == 2:
                prog = gen_bracket_program(rnd)
                cnt["bracket_programs"] = cnt.get("bracket_programs", 0) + 1
            else:
                prog, ref, info = tight.gen_program(rnd, opts={"include": rnd.random() < 0.3, "insert": rnd.random() < 0.2})
            case = {"kind": "gen", "prog": apm.to_json(prog), "style_seed": rnd.randrange(1 << 30), "k": spec["k"]}
            # each case in a forked child of this worker, which never parses anything itself: whatever the parser remembers from one text
            # to the next (memoised sub-parsers, caches) starts empty for every program, so the first spelling of each kind is a first use
            def job(case=case):
                c = {}
                v, nd = run_case(case, c, root)
                return {"vs": v, "nd": nd, "cnt": c}
            r = forked.call(job, os.path.join(root, f"res-{i}.json"))
            if "child_error" in r:
                res["inconclusive"].append(f"case {i} of part {spec['part']}: {r['child_error']}")
                continue
            vs, ndiff = r["vs"], r["nd"]
            for k, v in r["cnt"].items():
                cnt[k] = cnt.get(k, 0) + v
            cnt["forked_cases"] = cnt.get("forked_cases", 0) + 1
            res["violations"].extend(vs)
            res["evaluations"] += 1
            cnt["programs"] += 1
            res["distinct"].extend(f"{i}|{spec['part']}|{j}" for j in range(ndiff))
            if i < 1:
                st = apm.Style.random(random.Random(case["style_seed"]), 0.7)
                res["samples"].append({"canonical": apm.r_file(prog.files[0]).splitlines()[:8], "respelled": apm.r_file(prog.files[0], st).splitlines()[:8]})
        # registers written as '%expr' over constants that are private to each file (same names, other values), against 'rN'
        for i in range(6 if spec["tier"] == "quick" else 60):
            nf = rnd.choice([1, 2, 3])
            fa, fb = [], []
            for f in range(nf):
                v = rnd.randrange(0, 4)
                la = [f"rq = {v}", f"rw = {rnd.randrange(0, 3)}"] + ([".link 2000"] if f == 0 else [])
                lb = list(la)
                w = int(la[1].split("=")[1])
                for _ in range(rnd.randrange(2, 7)):
                    n1, n2 = rnd.randrange(v, v + 4), rnd.randrange(w, w + 4)
                    form = rnd.choice(["mov {a}, {b}", "clr ({a})+", "add -({a}), @{b}", "cmp 2({a}), ({b})", "sob {a}, .", "jsr {a}, ({b})", "mul ({b})+, {a}"])
                    la.append("\t" + form.format(a=f"r{n1}", b=f"r{n2}"))
                    lb.append("\t" + form.format(a=rnd.choice([f"%rq+{n1 - v}", f"%{n1 - v}+rq", f"%<rq + {n1 - v}>"]), b=rnd.choice([f"%rw+{n2 - w}", f"%{n2}", f"r{n2}"])))
                fa.append([f"f{f}.mac", "\n".join(la) + "\n"])
                fb.append([f"f{f}.mac", "\n".join(lb) + "\n"])
            case = {"kind": "pair", "a": fa, "b": fb, "style_seed": 0}
            vs, ndiff = run_case(case, cnt, root)
            res["violations"].extend(vs)
            res["evaluations"] += 1
            res["distinct"].append(f"pair|{spec['part']}|{i}")
        # the end of the file: the last statement with and without a final newline, followed by blanks, tabs or a comment
        for i in range(8 if spec["tier"] == "quick" else 80):
            body = [".link 2000", "eofa:\tmov #5, r0"] + [rnd.choice(["\tclr (r1)+", "\tadd r0, r2", "\t.word 1, 2", "\t.byte 3, 4"]) for _ in range(rnd.randrange(0, 3))] + ["eofb = 7"]
            last = rnd.choice(["\tclr (r3)+", "\tmov (r1)+, (r2)+", "\tcmp -(r4), @(r5)+", "\tmov r0, r1", "\tjmp eofa", "\tmov #5, eofa", "\t.word 1, eofa", "\tnop",
                               "\t.even", "\t.blkw 2", "\tbr eofa", "\tsob r1, eofa", "\tmov 2(r1), @#eofa", "\t.byte 1, 2", "\tinc @eofa", "eofc:", "eofd = 5",
                               "\t.word <1 + 2>", "\tmov #'a, r0", "\t.ascii \"ab\"", "\temt 5", "\trts pc"])
            tail = rnd.choice([" ", "  ", "\t", " \t ", "", " ; end", "\t;", "\n\n", "\n  ", "\n\t\n ", " \n", "\r\n", "\n; end"])
            fa = [["f0.mac", "\n".join(body + [last]) + "\n"]]
            fb = [["f0.mac", "\n".join(body + [last]) + tail]]
            case = {"kind": "pair", "a": fa, "b": fb, "style_seed": 0, "what": "end of file"}
            vs, ndiff = run_case(case, cnt, root)
            res["violations"].extend(vs)
            res["evaluations"] += 1
            cnt["end_of_file_pairs"] = cnt.get("end_of_file_pairs", 0) + 1
            res["distinct"].append(f"eof|{last}|{tail!r}")
        repo = os.environ.get("VERIF_REPO", "/repo")
        dirs = sorted(glob.glob(os.path.join(repo, "tests", "practice", "*", "")))
        for j, d in enumerate(dirs):
            if j % spec["parts"] != spec["part"]:
                continue
            case = {"kind": "corpus", "dir": os.path.relpath(d, repo), "style_seed": rnd.randrange(1 << 30), "k": spec["kc"]}
            vs, ndiff = run_case(case, cnt, root)
            res["violations"].extend(vs)
            res["evaluations"] += 1
            res["distinct"].extend(f"corpus|{case['dir']}|{q}" for q in range(ndiff))
    finally:
        shutil.rmtree(root, ignore_errors=True)
    return res


def run_case(case, cnt=None, root=None):
    import shutil
    import tempfile
    from vlib import apm, asm, meta
    if cnt is None:
        cnt = {}
    for k in DECIDING_COUNTERS + ["variants_identical_text"]:
        cnt.setdefault(k, 0)
    out = []
    ndiff = 0
    own = root is None
    if own:
        root = tempfile.mkdtemp(prefix="c10-", dir=os.getcwd())
    srnd = random.Random(case["style_seed"])
    try:
        if case["kind"] == "pair":
            # two spellings of one multi-file program given as texts
            oa = asm.assemble([(os.path.join(root, n), tx) for n, tx in case["a"]], wall=120)
            ob = asm.assemble([(os.path.join(root, n), tx) for n, tx in case["b"]], wall=120)
            if "stall" in (oa.cls, ob.cls):
                return (out, 0) if not own else out
            cnt["variants_compared"] += 1
            if "what" not in case:
                cnt["register_expression_pairs"] = cnt.get("register_expression_pairs", 0) + 1
            if oa.cls != "ok" or meta.observable(oa) != meta.observable(ob):
                out.append({"what": f"{case.get('what', 'register spellings')}: first form gives {meta.describe(oa)}, second form gives {meta.describe(ob)} "
                                    f"({[e['id'] for e in ob.errors][:3]}); second form's files: {[tx for _n, tx in case['b']]}"[:1500], "case": case})
            return (out, 1) if not own else out
        if case["kind"] == "gen":
            prog = apm.from_json(case["prog"])
            o0, t0 = meta.assemble_prog(prog, root)
            if o0.cls == "stall":
                return (out, 0) if not own else out
            obs0 = meta.observable(o0)
            for j in range(case["k"]):
                style = apm.Style.random(srnd, srnd.choice([0.3, 0.6, 1.0]))
                o, t = meta.assemble_prog(prog, root, style)
                if t == t0:
                    cnt["variants_identical_text"] += 1
                    continue
                ndiff += 1
                if o.cls == "stall":
                    continue
                cnt["variants_compared"] += 1
                obs = meta.observable(o)
                if obs != obs0:
                    name = prog.files[0].name
                    detail = ""
                    if obs[0] == "ok" and obs0[0] == "ok":
                        d = meta.first_diff(obs[2], obs0[2])
                        detail = f"; first differing byte at offset {d}"
                    # find a differing line pair to show
                    show = ""
                    for fname in t:
                        la, lb = t0[fname].split("\n"), t[fname].split("\n")
                        if la != lb:
                            show = f" e.g. respelled file {fname}: " + " | ".join(l.strip() for l in lb[:6])
                            break
                    v = {"what": f"spelling changed the result: canonical {meta.describe(o0)} vs respelled {meta.describe(o)}{detail}.{show[:500]}",
                         "case": dict(case, variant=j)}
                    out.append(v)
                    break
        else:
            repo = os.environ.get("VERIF_REPO", "/repo")
            src_dir = os.path.join(repo, case["dir"])
            work = tempfile.mkdtemp(prefix="corp-", dir=root)
            shutil.copytree(src_dir, os.path.join(work, "p"))
            main = os.path.join(work, "p", "code.mac")
            with open(main, encoding="utf-8") as f:
                text = f.read()
            o0 = asm.assemble([(main, text)], wall=300)
            obs0 = meta.observable(o0)
            for j in range(case["k"]):
                t = respell_corpus(text, srnd)
                if t == text:
                    continue
                ndiff += 1
                o = asm.assemble([(main, t)], wall=300)
                if o.cls == "stall" or o0.cls == "stall":
                    continue
                cnt["corpus_variants_compared"] += 1
                if meta.observable(o) != obs0:
                    la, lb = text.split("\n"), t.split("\n")
                    diffl = next((f"{a!r} -> {b!r}" for a, b in zip(la, lb) if a != b), "")
                    out.append({"what": f"practice program {case['dir']}: safe respelling changed the result: {meta.describe(o0)} vs {meta.describe(o)}; "
                                        f"first changed line {diffl[:200]}; errors {[(e['id'], e['spans'][0]['rs']) for e in o.errors[:2]]}",
                                "case": dict(case, variant=j)})
                    break
            shutil.rmtree(work, ignore_errors=True)
    finally:
        if own:
            shutil.rmtree(root, ignore_errors=True)
    return (out, ndiff) if not own else out
