"""C15  Radix-50 packing.

Monitor: independent RADIX-50 unpacker (DEC alphabet written out here) over the words the
real assembler emits for '.rad50' strings and '^R' literals; exhaustive over character triples.
"""
import itertools
import random

PROPERTY = "C15"
LEVEL = "exploration"
RULE = ("exhaustive: every one of the 64000 character triples through '.rad50' (random letter case), every ^R literal of "
        "1-3 alphabet characters (60879 forms), strings of 0-12 characters incl. <n> codes 0-63, every non-alphabet "
        "ASCII character and over-long ^R literals as rejection cases; distinct = distinct triples / literals / strings")
ASSUMPTIONS = ["the RADIX-50 alphabet is the DEC one: space, A-Z, $, ., %, 0-9 (written out in the checker, not imported)",
               "'folding case' applies to the ASCII letters a-z; a non-ASCII character whose Unicode upper-case form is an ASCII letter (U+017F, U+0131, U+212A) is outside the alphabet"]
DECIDING_COUNTERS = ["triples_rad50", "literals_R", "strings", "rejections_expected"]
MIN_DISTINCT = 1000

ALPHABET = " ABCDEFGHIJKLMNOPQRSTUVWXYZ$.%0123456789"
assert len(ALPHABET) == 40


def unpack(word):
    w, c3 = divmod(word, 40)
    c1, c2 = divmod(w, 40)
    if c1 >= 40:
        return None
    return ALPHABET[c1] + ALPHABET[c2] + ALPHABET[c3]


def plan(tier, seed):
    n = 16
    return [{"part": i, "parts": n, "seed": seed, "tier": tier} for i in range(n)]


def _case_mix(rnd, s):
    return "".join(c.lower() if rnd.random() < 0.5 else c for c in s)


def run_shard(spec):
    rnd = random.Random(spec["seed"] * 7919 + spec["part"])
    res = {"evaluations": 0, "distinct": [], "counters": {k: 0 for k in DECIDING_COUNTERS}, "sets": {}, "samples": [],
           "violations": [], "inconclusive": []}
    cnt = res["counters"]
    cnt["words_unpacked"] = 0
    part, parts = spec["part"], spec["parts"]
    # 1. all triples through .rad50: triple index t = part, part+parts, ...
    triples = ["".join(t) for i, t in enumerate(itertools.product(ALPHABET, repeat=3)) if i % parts == part]
    rnd.shuffle(triples)
    for i in range(0, len(triples), 400):
        group = triples[i:i + 400]
        lines = []
        j = 0
        while j < len(group):
            k = rnd.choice([1, 2, 3, 4])
            lines.append(group[j:j + k])
            j += k
        case = {"kind": "rad50", "lines": [_case_mix(rnd, "".join(l)) for l in lines], "quote": rnd.choice("\"'/")}
        res["violations"].extend(run_case(case, cnt))
        cnt["triples_rad50"] += len(group)
        res["evaluations"] += len(group)
        if i == 0:
            res["samples"].append({"kind": "rad50", "lines": case["lines"][:3]})
    res["distinct"].extend("t" + t for t in triples)
    # 2. ^R literals
    lits = [a for a in ALPHABET[1:]] + ["".join(t) for t in itertools.product(ALPHABET[1:], repeat=2)] + \
           ["".join(t) for t in itertools.product(ALPHABET[1:], repeat=3)]
    lits = [l for i, l in enumerate(lits) if i % parts == part]
    rnd.shuffle(lits)
    for i in range(0, len(lits), 400):
        group = lits[i:i + 400]
        case = {"kind": "R", "lits": [_case_mix(rnd, l) for l in group], "r": rnd.choice(["^R", "^r"])}
        res["violations"].extend(run_case(case, cnt))
        cnt["literals_R"] += len(group)
        res["evaluations"] += len(group)
        if i == 0:
            res["samples"].append({"kind": "R", "lits": case["lits"][:5]})
    res["distinct"].extend("R" + l for l in lits)
    # 3. strings of 0-12 chars mixed with <n> chunks
    nstr = (1500 if spec["tier"] == "quick" else 20000) // parts
    for i in range(nstr):
        chunks = []
        total = 0
        while total < 12 and rnd.random() < 0.85:
            if rnd.random() < 0.3:
                chunks.append(["n", rnd.randrange(0, 40)])
                total += 1
            else:
                n = rnd.randrange(0, 13 - total)
                txt = _case_mix(rnd, "".join(rnd.choice(ALPHABET) for _ in range(n)))
                if n and rnd.random() < 0.35:
                    # blanks are characters of the alphabet like any other: leading, trailing and whole-chunk blanks
                    k = rnd.randrange(1, n + 1)
                    txt = rnd.choice([txt[:n - k] + " " * k, " " * k + txt[k:], " " * n])
                chunks.append(["s", txt])
                total += n
        if not chunks:
            chunks = [["s", ""]]
        case = {"kind": "str", "chunks": chunks}
        if rnd.random() < 0.25:
            # the words are packed from characters, wherever the directive stands: after an odd number of bytes too
            case["before"] = rnd.choice([".byte 1", ".ascii /abc/", ".byte 1, 2, 3", ".rad50 /A/\n.byte 7", ".odd", "lbl: .byte 377"])
        res["violations"].extend(run_case(case, cnt))
        cnt["strings"] += 1
        res["evaluations"] += 1
        res["distinct"].append("s" + repr(chunks))
        if i < 2:
            res["samples"].append(case)
    # 3b. the same directive text in several contexts: <n> codes given by a file-private symbol that differs from file to file, by '.'
    #     relative to a label, by a constant defined after the use; the same quoted chunks next to them
    for i in range(40 if spec["tier"] == "quick" else 400):
        nf = rnd.choice([1, 2, 3])
        shared = _case_mix(rnd, "".join(rnd.choice(ALPHABET) for _ in range(rnd.randrange(0, 5))))
        files = []
        for f in range(nf):
            x = rnd.randrange(40)
            n_dir = rnd.randrange(1, 4)
            lines = [[".link 2000"] if f == 0 else []][0]
            late = rnd.random() < 0.5
            if not late:
                lines.append(f"x = {x}.")
            lines.append(f"t{f}:")
            exp_codes = []
            for d in range(n_dir):
                # every directive: "shared" <x> <.-tF> : '.' is the address of the directive = 2 words per earlier directive
                k = len(shared) + 2
                k3 = k + (-k) % 3
                here = d * (k3 // 3) * 2
                lines.append(f'\t.rad50 "{shared}" <x> <.-t{f}>')
                exp_codes.append([ALPHABET.index(c.upper()) for c in shared] + [x, here])
            if late:
                lines.append(f"x = {x}.")
            files.append({"name": f"/c15/f{f}.mac", "text": "\n".join(lines) + "\n", "codes": exp_codes})
        case = {"kind": "ctx", "files": files}
        if all(c < 40 for f in files for d in f["codes"] for c in d):
            res["violations"].extend(run_case(case, cnt))
            cnt["context_programs"] = cnt.get("context_programs", 0) + 1
            res["evaluations"] += 1
            res["distinct"].append("ctx" + repr([(f["codes"]) for f in files]))
    # 3c. chains: the <n> code of each directive is the size of the NEXT directive (a label difference), and the last one's code is a constant
    #     that may be defined at the very end: evaluating one directive makes the assembler evaluate the following ones in the middle of it
    for i in range(100 if spec["tier"] == "quick" else 600):
        depth = rnd.choice([2, 2, 3, 4])
        texts = [_case_mix(rnd, "".join(rnd.choice(ALPHABET[1:]) for _ in range(rnd.randrange(0 if rnd.random() < 0.2 else 1, 6)))) for _ in range(depth)]
        sizes = [2 * ((len(tx) + 1 + 2) // 3) for tx in texts]
        kval = rnd.randrange(40)
        late = rnd.random() < 0.7
        lines = [".link 2000"] + ([] if late else [f"kq = {kval}."])
        codes = []
        for d in range(depth):
            nxt = f"<l{d + 2}-l{d + 1}>" if d < depth - 1 else "<kq>"
            lines.append(f'l{d}:\t.rad50 "{texts[d]}" {nxt}')
            codes.append([ALPHABET.index(c.upper()) for c in texts[d]] + [sizes[d + 1] if d < depth - 1 else kval])
        lines.append(f"l{depth}:")
        if late:
            lines.append(f"kq = {kval}.")
        case = {"kind": "ctx", "files": [{"name": "/c15/chain.mac", "text": "\n".join(lines) + "\n", "codes": codes}]}
        res["violations"].extend(run_case(case, cnt))
        cnt["chain_programs"] = cnt.get("chain_programs", 0) + 1
        res["evaluations"] += 1
        res["distinct"].append("chain" + repr(codes))
    # 4. rejections: every non-alphabet printable ASCII char, <n> 40..63 (+ some larger), over-long ^R
    rej = []
    if part == 0:
        for c in range(0x21, 0x7F):
            ch = chr(c)
            if ch.upper() not in ALPHABET and ch not in "\"\\":
                rej.append({"kind": "rej_char", "ch": ch, "pos": c % 3})
        # non-ASCII: every BMP character whose upper-case form is several letters (ligatures, sharp s, ...), Latin-1/Extended-A,
        # full-width forms, and a random sample; characters whose case mapping is one alphabet letter (U+017F, U+0131, U+212A,
        # U+0130) are "folding case" under one reading and "outside the alphabet" under another: accepted-and-packed-as-that-letter
        # or rejected are both taken, a crash or any other word is not
        pool = [c for c in range(0x80, 0x10000) if not 0xD800 <= c < 0xE000 and len(chr(c).upper()) != 1]
        pool += list(range(0xA1, 0x250)) + list(range(0xFF01, 0xFF5F)) + [0x212A, 0x0130, 0x0131, 0x017F, 0x1E9E, 0x2126, 0x212B]
        pool += [rnd.randrange(0x250, 0xD800) for _ in range(150)]
        for c in sorted(set(pool)):
            ch = chr(c)
            if ch.isspace() or ch in "\x85\u2028\u2029\x1c\x1d\x1e\x1f":
                continue
            # (also the few whose case mapping happens to be one letter of the alphabet - U+017F, U+0131, U+212A, U+0130: 'folding case'
            # is said of the alphabet's own letters; they are outside it like every other non-ASCII character, in '.rad50' as in '^R')
            rej.append({"kind": "rej_char", "ch": ch, "pos": c % 3})
            rej.append({"kind": "rej_Rforeign", "ch": ch})
        # blank-like characters other than the space itself, raw and as escapes: not in the alphabet
        for ws in ["\t", "\x0b", "\x0c", "\xa0", "\u2003", "\u3000", "\x1f", "\x85", "\r", "\\t", "\\n", "\\x09", "\\r", "\\x0c", "\u2009", "\u202f", "\ufeff", "\x1c"]:
            for pos in range(3):
                rej.append({"kind": "rej_char", "ch": ws, "pos": pos})
        for n in list(range(40, 64)) + [64, 100, 255, 1000]:
            rej.append({"kind": "rej_code", "n": n})
        for n in range(0, 40):
            rej.append({"kind": "ok_code", "n": n})
        # codes spelled in other ways than '<n.>': octal by default (so a bare 8 or 9 is no number), radix prefixes, signs, arithmetic; in
        # the first, a middle or the last chunk
        for txt, val in [("-1", None), ("-50", None), ("8", None), ("9", None), ("39", None), ("18", None), ("-8", None), ("50", None), ("47", 39), ("7", 7), ("-0", 0),
                         ("1+1", 2), ("0-1", None), ("47+1", None), ("^D39", 39), ("^D40", None), ("^X27", 39), ("^X28", None), ("^B100111", 39), ("^B101000", None),
                         ("-^D1", None), ("^O47", 39), ("^O50", None), ("39.", 39), ("40.", None), ("-1.", None), ("0x27", 39), ("0x28", None), ("2*24", None), ("2*23", 38),
                         ("100-61", 15), (" <47> ", 39), (" <50> ", None), ("(-1)", None), ("^C0", None), ("~0", None), ("177777", None), ("200000", None), ("-177777", None)]:
            for shape in ("last", "first", "middle"):
                rej.append({"kind": "rej_code_text" if val is None else "ok_code_text", "txt": txt, "val": val, "shape": shape})
        for k in (4, 5, 6):
            for _ in range(10):
                rej.append({"kind": "rej_long", "lit": "".join(rnd.choice(ALPHABET[1:]) for _ in range(k))})
        for ch in "!#&*,;@":
            rej.append({"kind": "rej_Rforeign", "ch": ch})
        # '^R' must be followed directly by its characters: a blank, a tab, a comment or a line break ends the (empty) literal
        for gap in [" ", "  ", "\t", " \t ", "\n", " ; c\n", ";\n", "\n\n"]:
            for tail in ["AB", "A", "ABC", "nop", "X9$"]:
                rej.append({"kind": "rej_Rgap", "gap": gap, "tail": tail})
    for case in rej:
        res["violations"].extend(run_case(case, cnt))
        if case["kind"].startswith("rej"):
            cnt["rejections_expected"] += 1
        res["evaluations"] += 1
        res["distinct"].append(repr(case))
    if part != 0:
        cnt["rejections_expected"] += 0
    return res


def _expect_words(chars):
    codes = list(chars)
    while len(codes) % 3:
        codes.append(0)
    return [(codes[i] * 40 + codes[i + 1]) * 40 + codes[i + 2] for i in range(0, len(codes), 3)]


def run_case(case, cnt=None):
    from vlib import asm
    out = []

    def viol(what):
        out.append({"what": what, "case": case})

    kind = case["kind"]
    if kind == "rad50":
        q = case["quote"]
        src = "".join(f".rad50 {q}{l}{q}\n" for l in case["lines"])
        o = asm.assemble([("/c15/main.mac", src)])
        if o.cls != "ok":
            viol(f"valid .rad50 program rejected: {o.brief()}")
            return out
        exp = []
        for l in case["lines"]:
            exp.extend(_expect_words([ALPHABET.index(c.upper()) for c in l]))
        got = [int.from_bytes(o.code[i:i + 2], "little") for i in range(0, len(o.code), 2)]
        if len(o.code) % 2 or len(got) != len(exp):
            viol(f"image length {len(o.code)} bytes, expected {2 * len(exp)}")
            return out
        text = "".join(case["lines"]).upper()
        for i, (g, e) in enumerate(zip(got, exp)):
            if cnt is not None:
                cnt["words_unpacked"] += 1
            if g != e or unpack(g) != text[3 * i:3 * i + 3].ljust(3):
                viol(f"word {i}: got {g:#o} (unpacks to {unpack(g)!r}), expected {e:#o} for {text[3 * i:3 * i + 3]!r}")
                break
    elif kind == "R":
        src = "".join(f".word {case['r']}{l}\n" for l in case["lits"])
        o = asm.assemble([("/c15/main.mac", src)])
        if o.cls != "ok":
            viol(f"valid ^R program rejected: {o.brief()['diag'][:3]} {o.brief().get('exc')}")
            return out
        got = [int.from_bytes(o.code[i:i + 2], "little") for i in range(0, len(o.code), 2)]
        if len(got) != len(case["lits"]):
            viol(f"image has {len(got)} words for {len(case['lits'])} literals")
            return out
        for l, g in zip(case["lits"], got):
            e = _expect_words([ALPHABET.index(c.upper()) for c in l.ljust(3)])[0]
            if cnt is not None:
                cnt["words_unpacked"] += 1
            if g != e or unpack(g) != l.upper().ljust(3):
                viol(f"^R{l}: got {g:#o} (unpacks to {unpack(g)!r}), expected {e:#o}")
                break
    elif kind == "ctx":
        o = asm.assemble([(f["name"], f["text"]) for f in case["files"]])
        exp = b"".join(w.to_bytes(2, "little") for f in case["files"] for d in f["codes"] for w in _expect_words(d))
        if o.cls != "ok":
            viol(f"valid .rad50 program (codes from symbols and '.') rejected: {o.brief()}; files {[f['text'] for f in case['files']]}")
        elif o.code != exp:
            viol(f"same '.rad50' text in different contexts: got {o.code.hex()}, expected {exp.hex()}; files {[f['text'] for f in case['files']]}")
        elif cnt is not None:
            cnt["words_unpacked"] += len(exp) // 2
    elif kind == "str":
        parts = []
        codes = []
        for k, v in case["chunks"]:
            if k == "n":
                parts.append(f"<{v}.>")
                codes.append(v)
            else:
                parts.append(f'"{v}"')
                codes.extend(ALPHABET.index(c.upper()) for c in v)
        src = ".rad50 " + " ".join(parts) + "\n"
        exp = b"".join(w.to_bytes(2, "little") for w in _expect_words(codes))
        if case.get("before"):
            src = case["before"] + "\n" + src
            exp = {".byte 1": b"\x01", ".ascii /abc/": b"abc", ".byte 1, 2, 3": b"\x01\x02\x03", ".rad50 /A/\n.byte 7": b"\x40\x06\x07", ".odd": b"\x00", "lbl: .byte 377": b"\xff"}[case["before"]] + exp
            if cnt is not None:
                cnt["strings_at_odd_address"] = cnt.get("strings_at_odd_address", 0) + 1
        o = asm.assemble([("/c15/main.mac", src)])
        if o.cls != "ok":
            viol(f"valid .rad50 string rejected: {src!r} {o.brief()}")
        elif o.code != exp:
            viol(f"{src!r}: got {o.code.hex()}, expected {exp.hex()}")
        elif cnt is not None:
            cnt["words_unpacked"] += len(exp) // 2
    else:
        if kind == "rej_char":
            s = list("AB")
            s.insert(case["pos"], case["ch"])
            src = f'.rad50 "{"".join(s)}"\n'
            want = "invalid-character"
        elif kind == "rej_code":
            src = f'.rad50 "A" <{case["n"]}.>\n'
            want = "value-out-of-bounds"
        elif kind == "ok_code":
            src = f'.rad50 "A" <{case["n"]}.>\n'
            want = None
        elif kind in ("rej_code_text", "ok_code_text"):
            src = {"last": '.rad50 /AB/ <{}>\n', "first": '.rad50 <{}> /AB/\n', "middle": '.rad50 /B/ <{}> /A/\n'}[case["shape"]].format(case["txt"])
            want = "ANY"
            if kind == "ok_code_text":
                codes = {"last": [1, 2, case["val"]], "first": [case["val"], 1, 2], "middle": [2, case["val"], 1]}[case["shape"]]
                exp = b"".join(w.to_bytes(2, "little") for w in _expect_words(codes))
                o = asm.assemble([("/c15/main.mac", src)])
                if o.cls != "ok" or o.code != exp:
                    viol(f"{src!r}: code {case['val']} must be accepted and packed as {exp.hex()}; got {o.brief()}")
                elif cnt is not None:
                    cnt["code_spellings_packed"] = cnt.get("code_spellings_packed", 0) + 1
                return out
        elif kind == "rej_long":
            src = f'.word ^R{case["lit"]}\n'
            want = "invalid-string"
        elif kind == "rej_Rgap":
            src = f'.word ^R{case["gap"]}{case["tail"]}\n'
            want = "ANY"
        elif kind in ("amb_char", "amb_R"):
            if kind == "amb_char":
                t = list("AB")
                t.insert(case["pos"], case["ch"])
                src = f'.rad50 "{"".join(t)}"\n'
                exps = [[ALPHABET.index(x if x != case["ch"] else f) for x in t] for f in case["folds"]]
            else:
                src = f'.word ^R{case["ch"]}\n'
                exps = [[ALPHABET.index(f)] for f in case["folds"]]
            o = asm.assemble([("/c15/main.mac", src)])
            if cnt is not None:
                cnt["case_mapped_foreign"] = cnt.get("case_mapped_foreign", 0) + 1
            if o.cls == "ok":
                if o.code not in [b"".join(w.to_bytes(2, "little") for w in _expect_words(e)) for e in exps]:
                    viol(f"{src!r} (U+{ord(case['ch']):04X}) accepted but packed as {o.code.hex()}, which is not the letter it case-maps to ({case['folds']})")
            elif o.cls != "fail":
                viol(f"{src!r} (U+{ord(case['ch']):04X}) neither packed nor rejected: {o.brief()}")
            return out
        else:
            src = f'.word ^R{case["ch"]}\n'
            want = "ANY"
        o = asm.assemble([("/c15/main.mac", src)])
        if kind == "rej_code":
            # the same parsed file compiled a second time (fresh Compiler): the code is as invalid as the first time
            from pdpy11 import compiler as _c, parser as _p, reports as _r
            ast = _p.parse("/c15/main.mac", src)
            verdicts = []
            for _ in range(2):
                seen = []
                try:
                    with _r.handle_reports(lambda pr, ident, *sp: seen.append(ident)):
                        _c.Compiler(output_charset="bk").compile_and_link_files([ast])
                    verdicts.append(("ok", seen))
                except _r.UnrecoverableError:
                    verdicts.append(("fail", seen))
            if cnt is not None:
                cnt["recompiled_asts"] = cnt.get("recompiled_asts", 0) + 1
            if [v[0] for v in verdicts] != ["fail", "fail"] or not all("value-out-of-bounds" in v[1] for v in verdicts):
                viol(f"{src!r}: one parsed file compiled twice gives {verdicts}")
        if want is None:
            exp = b"".join(w.to_bytes(2, "little") for w in _expect_words([1, case["n"]]))
            if o.cls != "ok" or o.code != exp:
                viol(f"{src!r}: code {case['n']} < 40 must be accepted and packed; got {o.brief()}")
        elif o.cls != "fail":
            viol(f"{src!r} must be rejected, outcome {o.brief()}")
        elif want != "ANY" and want not in o.ids("error"):
            viol(f"{src!r} rejected without {want}: {o.brief()['diag']}")
    return out
