"""C16  Structural directives preserve meaning.

Monitor: metamorphic checker on real runs; both sides come from one abstract program rendered two ways:
  repeat  : '.repeat n { body }'            vs  the body written out n times (each copy seeing its own '.')
  link    : files F1 F2 ... linked in order  vs  their concatenation in one file
  insert  : insert_file "blob"               vs  the same bytes as '.byte' data
  end     : P + '.end' + arbitrary junk      vs  P
  once    : a '.once' file included twice    vs  included once
(status, base, bytes) must be identical.
"""
import os
import random

PROPERTY = "C16"
LEVEL = "exploration"
RULE = ("generated programs (tight generator) whose .repeat bodies contain every operand form and expression shape: '.', indexed operands "
        "with symbolic offsets spelled 'a+2(r0)', non-linear operators on '.'-dependent values ('./2', '.>>1', '.%8'), references to "
        "enclosing-scope local labels, data with parity effects; n in 0-40, nesting <= 3; 1-3 files; inserted files of 0-300 bytes; "
        "distinct = distinct (program, transformation) pairs whose two sides differ as text")
ASSUMPTIONS = ["linked files share no private or local names (distinct by construction) and none ends early",
               "a lazily counted .repeat whose body mentions a label defined after it is the listed finding 'definitional-cycle' and is not generated"]
DECIDING_COUNTERS = ["pairs_compared", "repeat_pairs", "link_pairs", "insert_pairs", "end_pairs", "once_pairs"]
MIN_DISTINCT = 100

JUNK = ["this is not assembly at all !!! ((( \n", "mov r0,\n\"unterminated\n", ".word nosuch_symbol\n lab: lab: lab:\n", "{ } } {\n", "\x00\x01 ^Q\n",
        ".end\n.end\n", "label_after_end: .word 1\n", ".link 5000\n"]


def plan(tier, seed):
    n = 16 if tier == "quick" else 48
    total = 1500 if tier == "quick" else 120000
    return [{"part": i, "parts": n, "seed": seed, "tier": tier, "count": total // n} for i in range(n)]


def enrich_repeats(prog, rnd, consts):
    """Add the body shapes the statement names to every .repeat of the program; set st.count_value."""
    from vlib import apm
    n_local = [0]

    def visit(stmts, fileno, depth):
        out = []
        for st in stmts:
            if st.k == "repeat":
                extra = []
                r = rnd.random()
                lab = None
                if depth == 0 and rnd.random() < 0.5:
                    n_local[0] += 1
                    lab = f"{fileno * 100 + n_local[0]}$"
                    out.append(apm.label(lab))
                pool = [
                    apm.data(".word", ("bin", "/", ("dot",), apm.num(2))),
                    apm.data(".word", ("bin", ">>", ("dot",), apm.num(1)), ("bin", "%", ("dot",), apm.num(8))),
                    apm.data(".word", ("bin", "&", ("dot",), apm.num(0o177770)), ("dot",)),
                    apm.insn("mov", ("idx", ("bin", "+", ("sym", rnd.choice(consts)) if consts else apm.num(4), apm.num(2)), rnd.randrange(6)), ("reg", 1)),
                    apm.insn("clr", ("idxd", apm.num(-2), rnd.randrange(6))),
                    apm.insn("add", ("imm", ("bin", "-", ("dot",), apm.num(2, "d"))), ("idx", ("bin", "*", apm.num(2), apm.num(3)), 2)),
                    apm.wordlist(apm.num(5), ("bin", "/", ("dot",), apm.num(2))),
                    apm.wordlist(apm.num(0), ("bin", "%", ("dot",), apm.num(0o100)), ("bin", ">>", ("dot",), apm.num(1))),
                    apm.data(".byte", apm.num(1)),
                    apm.simple(".even"),
                    apm.blk(".blkb", ("bin", "&", ("dot",), apm.num(3))),
                ]
                if lab:
                    pool.append(apm.data(".word", ("loc", lab)))
                    pool.append(apm.insn("mov", ("imm", ("loc", lab)), ("reg", 0)))
                for _ in range(rnd.randrange(1, 4)):
                    extra.append(rnd.choice(pool))
                body = [apm.simple(".even")] + extra + [apm.simple(".even")] + visit(st.body, fileno, depth + 1)
                if rnd.random() < 0.3:
                    # the body ends in an operand with a postfix '+' (the closing brace may follow on the same line)
                    body += [apm.simple(".even"), rnd.choice([apm.insn("cmpb", ("mode", 2, rnd.randrange(6)), ("mode", 2, rnd.randrange(6))),
                                                              apm.insn("mov", ("reg", 1), ("mode", 3, rnd.randrange(6))), apm.insn("tst", ("mode", 2, rnd.randrange(6)))])]
                st.body = body
            out.append(st)
        return out
    for i, f in enumerate(prog.files):
        f.stmts = visit(f.stmts, i, 0)


def unroll(stmts, ref_counts):
    from vlib import apm
    out = []
    for st in stmts:
        if st.k == "repeat":
            n = ref_counts[id(st)]
            body = unroll(st.body, ref_counts)
            labels = st.labels
            first = True
            for _ in range(n):
                for b in body:
                    c = apm.st_from_json(apm.st_to_json(b))
                    if first and labels:
                        c.labels = list(labels) + list(c.labels)
                        first = False
                    out.append(c)
            if n == 0 or not body:
                if labels and first:
                    nop = apm.St("nop")
                    nop.labels = list(labels)
                    out.append(nop)
        else:
            out.append(st)
    return out


def count_values(prog):
    """Evaluate every .repeat count with the reference (counts are pure constants in the tight generator)."""
    from vlib import apm
    ref = apm.Ref(prog)
    ref.build_structure()
    counts = {}

    def visit(items, fid):
        for it in items:
            if it[0] == "repeat":
                st, scope, sub = it[1], it[2], it[3]
                counts[id(st)] = apm.ev(st.count, apm._Env(ref, fid, scope, 0))  # pylint: disable=protected-access
                visit(sub, fid)
            elif it[0] == "include":
                visit(it[1]["items"], it[1]["fid"])
    for u in ref.units:
        visit(u["items"], u["fid"])
    return counts


def run_shard(spec):
    import shutil
    import tempfile
    from vlib import apm, tight
    rnd = random.Random(spec["seed"] * 472882049 + spec["part"])
    res = {"evaluations": 0, "distinct": [], "counters": {k: 0 for k in DECIDING_COUNTERS}, "sets": {"transformations": []},
           "samples": [], "violations": [], "inconclusive": []}
    cnt = res["counters"]
    cnt["both_sides_fail"] = 0
    root = tempfile.mkdtemp(prefix="c16-", dir=os.getcwd())
    try:
        for i in range(spec["count"]):
            kind = rnd.choice(["repeat", "repeat", "repeat", "link", "insert", "end", "once"])
            try:
                case = gen_case(rnd, kind)
            except RuntimeError:
                continue
            if case is None:
                continue
            vs, differs = run_case(case, cnt, root)
            res["violations"].extend(vs)
            res["evaluations"] += 1
            res["sets"]["transformations"].append(kind)
            if differs:
                res["distinct"].append(f"{spec['part']}|{i}|{kind}")
            if i < 2:
                res["samples"].append({"kind": kind, "left": case["left_text_preview"], "right": case["right_text_preview"]})
    finally:
        shutil.rmtree(root, ignore_errors=True)
    return res


def gen_case(rnd, kind):
    from vlib import apm, tight, refcheck
    if kind == "repeat":
        prog, ref, info = tight.gen_program(rnd, opts={"repeat": True, "include": False, "insert": False}, nstmt=rnd.randrange(3, 14))
        consts = [n for c in info["ctxs"] for n in c.consts]
        enrich_repeats(prog, rnd, consts)
        if not any(st.k == "repeat" for f in prog.files for st in f.stmts):
            # make sure there is one
            prog.files[0].stmts.append(apm.simple(".even"))
            prog.files[0].stmts.append(apm.repeat(apm.num(rnd.randrange(0, 41), "d"), [apm.data(".word", ("bin", "/", ("dot",), apm.num(2))),
                                                                                         apm.insn("mov", ("idx", ("bin", "+", apm.num(4), apm.num(2)), 1), ("reg", 1))]))
        if rnd.random() < 0.4:
            # a table built by a repeat whose body is plain data, with '.' only INSIDE brackets
            dot = ("dot",)
            pool = [apm.data(".byte", ("bin", "*", ("grp", ("bin", "-", dot, ("sym", "tbl7"))), apm.num(2))),
                    apm.data(".byte", ("bin", "&", ("grp", dot), apm.num(0o177))),
                    apm.data(".byte", ("grp", ("bin", "-", dot, ("sym", "tbl7"))), apm.num(0o125)),
                    apm.wordlist(apm.num(rnd.randrange(0x10000)), ("grp", ("bin", "-", dot, ("sym", "tbl7")))),
                    apm.blk(".blkb", ("bin", "&", ("grp", dot), apm.num(1)))]
            body = [rnd.choice(pool[:3])] + ([rnd.choice(pool)] if rnd.random() < 0.4 else [])
            if any(b.k == "wordlist" for b in body):
                body = [apm.simple(".even")] + body
            prog.files[-1].stmts += [apm.simple(".even"), apm.label("tbl7"), apm.repeat(apm.num(rnd.randrange(2, 16), "d"), body), apm.simple(".even")]
        try:
            apm.Ref(prog).run()
            counts = count_values(prog)
        except (apm.RefError, apm.Unmodelled):
            return None
        right = apm.Program([apm.SrcFile(f.name, unroll(f.stmts, counts)) for f in prog.files], prog.aux, prog.blobs, prog.charset)
    elif kind == "link":
        prog, ref, info = tight.gen_program(rnd, nfiles=rnd.choice([2, 3]), opts={"include": False, "insert": rnd.random() < 0.3, "shadow": False, "extern_all": False})
        if rnd.random() < 0.3:
            # every file exports through a leading '.extern all' instead of '::' (mixing the two styles in ONE file reports the '::' names
            # as exported twice, so the concatenation would not be the same program)
            for fi, f in enumerate(prog.files):
                for st in f.stmts:
                    st.labels = [(n, "label" if kind == "extern" else kind) for n, kind in st.labels]
                # a constant of this file that the next file uses; '.extern all' first, last or in between (it covers both directions)
                f.stmts.insert(rnd.randrange(len(f.stmts) + 1), apm.assign(f"lk{fi}c", apm.num(rnd.choice([6, 0o100, 0o177776]))))
                f.stmts.insert(rnd.choice([0, len(f.stmts), rnd.randrange(len(f.stmts) + 1)]), apm.extern("all"))
            for fi, f in enumerate(prog.files):
                f.stmts += [apm.simple(".even"), apm.data(".word", ("sym", f"lk{(fi + 1) % len(prog.files)}c"))]
            try:
                apm.Ref(prog).run()
            except (apm.RefError, apm.Unmodelled):
                return None
        merged = []
        seen_all = False
        for f in prog.files:
            for st in f.stmts:
                if st.k == "extern" and "all" in [n.lower() for n in st.names]:
                    # in ONE file the first '.extern all' already covers everything after it; a second one would export the
                    # same names twice
                    if seen_all:
                        continue
                    seen_all = True
                merged.append(st)
        right = apm.Program([apm.SrcFile(prog.files[0].name, merged)], prog.aux, prog.blobs, prog.charset)
    elif kind == "insert":
        prog, ref, info = tight.gen_program(rnd, opts={"include": False, "insert": True})
        if not prog.blobs:
            return None

        aux_left, aux_right = dict(prog.aux), dict(prog.aux)
        if rnd.random() < 0.4:
            # the same spelling of a path in a file of another directory names another file
            other = bytes(rnd.randrange(256) for _ in range(rnd.randrange(1, 40)))
            prog.blobs["sub/blob9.bin"] = other
            ins = apm.insert_file("blob9.bin")
            ins.real = "sub/blob9.bin"
            inc_l = [apm.simple(".even"), ins, apm.simple(".even")]
            host = rnd.choice(prog.files)
            host.stmts.insert(rnd.randrange(len(host.stmts) + 1), apm.include("sub/inc7.mac"))
            aux_left["sub/inc7.mac"] = apm.SrcFile("sub/inc7.mac", inc_l)

        def repl(stmts):
            out = []
            for st in stmts:
                if st.k == "insert":
                    blob = prog.blobs[getattr(st, "real", None) or st.path]
                    first = True
                    for k in range(0, len(blob), 12):
                        d = apm.data(".byte", *[apm.num(b, rnd.choice([None, "d"])) for b in blob[k:k + 12]])
                        if first:
                            d.labels = list(st.labels)
                            first = False
                        out.append(d)
                    if first and st.labels:
                        nop = apm.St("nop")
                        nop.labels = list(st.labels)
                        out.append(nop)
                else:
                    out.append(st)
            return out
        for pth, f in aux_left.items():
            aux_right[pth] = apm.SrcFile(f.name, repl(f.stmts))
        right = apm.Program([apm.SrcFile(f.name, repl(f.stmts)) for f in prog.files], aux_right, {}, prog.charset)
        prog = apm.Program(prog.files, aux_left, prog.blobs, prog.charset)
    elif kind == "end":
        right, ref, info = tight.gen_program(rnd, opts={"include": False, "insert": False})
        files = []
        for f in right.files:
            if rnd.random() < 0.7:
                junk = apm.St("raw", text=rnd.choice(JUNK).rstrip("\n"))
                files.append(apm.SrcFile(f.name, list(f.stmts) + [apm.simple(rnd.choice([".end", ".END", "end", ".End"])), junk]))
            else:
                files.append(f)
        prog = apm.Program(files, right.aux, right.blobs, right.charset)
    else:  # once
        base, ref, info = tight.gen_program(rnd, nfiles=1, opts={"include": False, "insert": False, "dotskip": False})
        inc_body = [apm.simple(".once"), apm.simple(".even"), apm.label("oncelab"), apm.data(".word", apm.num(rnd.randrange(0x10000)), ("sym", "oncelab")),
                    apm.insn("mov", ("imm", ("sym", "oncelab")), ("reg", 0))]
        aux = {"once7.mac": apm.SrcFile("once7.mac", inc_body)}
        f = base.files[0]
        top = [i for i in range(len(f.stmts) + 1)]
        p1, p2 = sorted(rnd.sample(top, 2)) if len(top) >= 2 else (0, 0)
        left_stmts = list(f.stmts)

        def inc():
            # the same file under another spelling of its path is the same file
            st = apm.include("once7.mac")
            st.spell = rnd.choice(["once7.mac", "once7.mac", "./once7.mac", "././once7.mac", ".//once7.mac"])
            return st
        left_stmts[p2:p2] = [apm.simple(".even"), inc(), apm.simple(".even")]
        left_stmts[p1:p1] = [apm.simple(".even"), inc(), apm.simple(".even")]
        right_stmts = list(f.stmts)
        right_stmts[p2:p2] = [apm.simple(".even"), apm.simple(".even")]
        right_stmts[p1:p1] = [apm.simple(".even"), apm.include("once7.mac"), apm.simple(".even")]
        prog = apm.Program([apm.SrcFile(f.name, left_stmts)], aux, {}, base.charset)
        right = apm.Program([apm.SrcFile(f.name, right_stmts)], aux, {}, base.charset)
        if rnd.random() < 0.3:
            # the guarded file is ALSO one of the linked files, ahead of the file that includes it: being linked is its first time
            prog = apm.Program([apm.SrcFile("once7.mac", inc_body), apm.SrcFile(f.name, left_stmts)], aux, {}, base.charset)
            rs = list(f.stmts)
            rs[p2:p2] = [apm.simple(".even"), apm.simple(".even")]
            rs[p1:p1] = [apm.simple(".even"), apm.simple(".even")]
            right = apm.Program([apm.SrcFile("once7.mac", inc_body), apm.SrcFile(f.name, rs)], {}, {}, base.charset)
        elif rnd.random() < 0.3:
            # a second guarded file whose path differs from the first one's in letter case only: another file, with its own first time
            other = rnd.choice(["Once7.mac", "ONCE7.MAC", "once7.MAC"])
            body2 = [apm.simple(".once"), apm.simple(".even"), apm.label("oncelab2"), apm.data(".word", apm.num(rnd.randrange(0x10000)), ("sym", "oncelab2"), apm.num(0o52525))]
            aux2 = dict(aux)
            aux2[other] = apm.SrcFile(other, body2)
            tail_l = [apm.simple(".even"), apm.include(other), apm.include("once7.mac"), apm.include(other), apm.simple(".even")]
            tail_r = [apm.simple(".even")] + body2[1:] + [apm.simple(".even")]          # (its text written out, once)
            prog = apm.Program([apm.SrcFile(f.name, left_stmts + tail_l)], aux2, {}, base.charset)
            right = apm.Program([apm.SrcFile(f.name, right_stmts + tail_r)], aux2, {}, base.charset)
        elif rnd.random() < 0.3:
            # guarded files that include each other (or themselves): the inclusion met while the file is still being compiled is not the first
            w = [apm.data(".word", apm.num(rnd.randrange(0x10000))) for _ in range(6)]
            aux_l = dict(aux)
            aux_l["cyca7.mac"] = apm.SrcFile("cyca7.mac", [apm.simple(".once"), w[0], apm.include("cycb7.mac"), w[1]])
            aux_l["cycb7.mac"] = apm.SrcFile("cycb7.mac", [apm.simple(".once"), w[2], apm.include("cyca7.mac"), w[3]])
            aux_l["cycs7.mac"] = apm.SrcFile("cycs7.mac", [apm.simple(".once"), w[4], apm.include("cycs7.mac"), w[5]])
            aux_r = dict(aux)
            aux_r["flat7.mac"] = apm.SrcFile("flat7.mac", [w[0], w[2], w[3], w[1]])
            aux_r["flats7.mac"] = apm.SrcFile("flats7.mac", [w[4], w[5]])
            self_too = rnd.random() < 0.5
            tail_l = [apm.simple(".even"), apm.include("cyca7.mac"), apm.include("cycb7.mac")] + ([apm.include("cycs7.mac"), apm.include("cycs7.mac")] if self_too else [])
            tail_r = [apm.simple(".even"), apm.include("flat7.mac")] + ([apm.include("flats7.mac")] if self_too else [])
            prog = apm.Program([apm.SrcFile(f.name, left_stmts + tail_l)], aux_l, {}, base.charset)
            right = apm.Program([apm.SrcFile(f.name, right_stmts + tail_r)], aux_r, {}, base.charset)
    lt, rt = refcheck.render_all(prog), refcheck.render_all(right)
    return {"kind": kind, "caseflip": (rnd.randrange(1, 1 << 30) if kind == "link" and rnd.random() < 0.5 else 0), "left": apm.to_json(prog), "right": apm.to_json(right),
            "rstyle": (rnd.randrange(1, 1 << 30) if kind == "repeat" and rnd.random() < 0.5 else 0),
            "left_text_preview": lt[prog.files[0].name].splitlines()[:10], "right_text_preview": rt[right.files[0].name].splitlines()[:10]}


def run_case(case, cnt=None, root=None):
    import shutil
    import tempfile
    from vlib import apm, meta
    if cnt is None:
        cnt = {}
    for k in DECIDING_COUNTERS + ["both_sides_fail"]:
        cnt.setdefault(k, 0)
    own = root is None
    if own:
        root = tempfile.mkdtemp(prefix="c16-", dir=os.getcwd())
    out = []
    try:
        left, right = apm.from_json(case["left"]), apm.from_json(case["right"])
        sl = sr = apm.PLAIN
        if case.get("caseflip"):
            # names are case-insensitive within a file and across files alike: every occurrence in a letter case of its own
            sl = apm.Style(random.Random(case["caseflip"]), case=0.5, radix=0.0, brackets=0.0, ws=0.0)
            sr = apm.Style(random.Random(case["caseflip"] + 1), case=0.5, radix=0.0, brackets=0.0, ws=0.0)
        if case.get("rstyle"):
            # the structured form laid out differently (blanks, a block closed on the line of its last statement, comments)
            sl = apm.Style(random.Random(case["rstyle"]), ws=0.4, comments=0.2)
        ol, tl = meta.assemble_prog(left, root, sl)
        orr, tr = meta.assemble_prog(right, root, sr)
        differs = tl != tr
        if "stall" in (ol.cls, orr.cls):
            return (out, differs) if not own else out
        cnt["pairs_compared"] += 1
        cnt[case["kind"] + "_pairs"] += 1
        a, b = meta.observable(ol), meta.observable(orr)
        if a[0] == "fail" and b[0] == "fail":
            cnt["both_sides_fail"] += 1
        if a != b:
            detail = ""
            if a[0] == "ok" and b[0] == "ok":
                d = meta.first_diff(a[2], b[2])
                detail = f"; first differing byte at offset {d} ({a[2][d:d + 6].hex()} vs {b[2][d:d + 6].hex()})" if d is not None else ""
            v = {"what": f"{case['kind']}: structured form gives {meta.describe(ol)}, written-out form gives {meta.describe(orr)}{detail}; "
                         f"structured source: {' | '.join(l.strip() for l in list(tl.values())[0].splitlines()[:14])}", "case": {k: v for k, v in case.items() if not k.endswith('preview')}}
            if meta.known_cycle(ol, tl) or meta.known_cycle(orr, tr):
                cnt["excluded_known_cycle"] = cnt.get("excluded_known_cycle", 0) + 1     # listed C08 finding, not judged here
            else:
                out.append(v)
        return (out, differs) if not own else out
    finally:
        if own:
            shutil.rmtree(root, ignore_errors=True)
