"""C07  Errors fail the build; warnings never change it.

Monitor: the CLI shim's event log (diagnostic events by severity straight from emit_report, open() audit events with a writing
mode, directory snapshots before/after) checked by an offline rule per run:
    errors > 0  <=>  exit status != 0
    exit != 0    =>  no file created or modified, no write-open on any path
    exit == 0    =>  every requested output exists
and a relational rule across the option matrix: runs of one program that differ only in -W... selection or --report-format give the
same exit status, the same set of files and the same bytes.
"""
import os
import random

PROPERTY = "C07"
LEVEL = "fault_enumeration"
RULE = ("generated valid programs with 0-3 planted faults from the 63-kind catalogue (parse-time critical and non-critical, compile-time, "
        "late/lazy, link-time, emit-time) and 0-2 warning-only plantings x {bare, graphical} x random -W selections (-Wall, -Wno-all, single "
        "names, unknown names) x output selectors (-o x.bin / x.raw, --implicit-bin, make_* directives, --lst, several at once, pre-existing "
        "output files whose content must survive a failed run); distinct = distinct (fault kind or none, warning kind, selector, option point)")
ASSUMPTIONS = ["usage errors, unreadable inputs and an unwritable -o target are environment failures, not assembly outcomes: not generated",
               "'-o -' is not used (it shares stdout with bare-format diagnostics by design)",
               "listed finding partial-emit (D14): with several make_* targets of which one is unwritable the run fails after the writable ones were written"]
DECIDING_COUNTERS = ["cli_runs", "programs", "failed_runs_checked_for_no_output", "successful_runs_checked_for_outputs", "option_pairs_compared"]
MIN_DISTINCT = 100

W_CHOICES = [[], ["-Wall"], ["-Wno-all"], ["-Wall", "-Wno-label-fixup"], ["-Wno-implicit-operand"], ["-Wlegacy-deferred"], ["-Wnosuchwarning"],
             ["-Wno-all", "-Wexcess-hash"], ["-Wdefault"], ["-Wno-default"], ["-Wsuspicious-name", "-Wmeta-typo"],
             ["-Wno-undefined-symbol", "-Wno-value-out-of-bounds", "-Wno-wrong-operands"], ["-Wno-invalid-number", "-Wno-odd-address", "-Wno-io-error", "-Wno-unknown-insn"]]


# identifiers that are issued both as a warning and as an error: (warning statement, error statement, -W selections that hide the warning)
DUALS = {"implicit-accumulator": ("\tclrf r1", "\tclrf r6", [[], ["-Wall"], ["-Wno-implicit-accumulator"], ["-Wimplicit-accumulator"], ["-Wno-all"]]),
         "excess-hash": ("\temt #1", "\t.word #1", [["-Wno-excess-hash"], ["-Wno-all"], ["-Wno-default"], [], ["-Wall"], ["-Wno-all", "-Wexcess-hash"]])}


def plan(tier, seed):
    n = 16 if tier == "quick" else 48
    total = 400 if tier == "quick" else 20000
    return [{"part": i, "parts": n, "seed": seed, "tier": tier, "count": max(1, total // n), "points": 8 if tier == "quick" else 12} for i in range(n)]


def gen_case(rnd, points, idx=None, seed=0):
    from vlib import faults
    nf = rnd.choice([0, 0, 1, 1, 1, 2, 3])
    kinds = [rnd.choice(faults.KINDS) for _ in range(nf)]
    wk = [rnd.choice(faults.WARNING_KINDS) for _ in range(rnd.choice([0, 0, 1, 2]))]
    sel = rnd.choice(["o-bin", "o-raw", "implicit", "make", "make", "make+o", "none", "o-bin+lst", "make+lst", "make-bad-dir", "make-bad-dir+lst"])
    if idx is not None and idx < len(faults.KINDS):
        # the first cases of every run sweep the fault kinds one by one, each as the only fault of its program (a second fault would
        # fail the build earlier and hide a late one), with a selector that asks for an output and, in two runs out of three, a listing
        kinds = [faults.KINDS[idx]]
        sel = ["o-bin+lst", "make+lst", "make+o"][(idx + seed) % 3]
    matrix = []
    for _ in range(points):
        matrix.append([rnd.choice(["bare", "graphical"]), rnd.choice(W_CHOICES)])
    case = {"seed": rnd.randrange(1 << 30), "faults": kinds, "warnings": wk, "selector": sel, "matrix": matrix, "preexisting": rnd.random() < 0.5}
    if rnd.random() < 0.06 and not kinds:
        # a fault that exists only under a multi-byte output charset: a tape name of <= 16 characters but > 16 bytes
        case["charset_fault"] = rnd.choice(["ЖЖЖЖЖЖЖЖЖЖ", "Привет, мир!", "ёжик ёжик ёж", "€€€€€€"])
    if rnd.random() < 0.05 and not kinds and not case.get("charset_fault"):
        # an image that a 'bin' container cannot describe (> 65535 bytes): the make_bin target must fail the build without being
        # created, emptied or otherwise touched
        case["big_image"] = True
    if rnd.random() < 0.12 and not case.get("big_image"):
        # the same identifier first as a (possibly hidden) warning, later as an error
        case["dual"] = rnd.choice(sorted(DUALS))
        case["dual_order"] = rnd.choice(["warning-first", "warning-first", "error-first", "error-only"])
        case["matrix"] = [[rnd.choice(["bare", "graphical"]), rnd.choice(DUALS[case["dual"]][2])] for _ in range(points)]
    return case


def run_shard(spec):
    import shutil
    import tempfile
    rnd = random.Random(spec["seed"] * 920419823 + spec["part"])
    res = {"evaluations": 0, "distinct": [], "counters": {k: 0 for k in DECIDING_COUNTERS}, "sets": {"fault_kinds": [], "selectors": [], "diag_ids": []},
           "samples": [], "violations": [], "inconclusive": []}
    cnt = res["counters"]
    root = tempfile.mkdtemp(prefix="c07-", dir=os.getcwd())
    try:
        for i in range(spec["count"]):
            case = gen_case(rnd, spec["points"], spec["part"] * spec["count"] + i, spec["seed"])
            vs, tags = run_case(case, cnt, root, res["sets"]["diag_ids"])
            res["violations"].extend(vs)
            res["evaluations"] += len(case["matrix"])
            cnt["programs"] += 1
            res["distinct"].extend(tags)
            res["sets"]["fault_kinds"].extend(case["faults"] or ["none"])
            res["sets"]["selectors"].append(case["selector"])
            if i < 2:
                res["samples"].append({k: v for k, v in case.items()})
    finally:
        shutil.rmtree(root, ignore_errors=True)
    return res


def run_case(case, cnt=None, root=None, idset=None):
    import shutil
    import tempfile
    from vlib import cli, clicase, faults
    import pdpy11._cli  # noqa: F401  pylint: disable=unused-import
    if cnt is None:
        cnt = {}
    for k in DECIDING_COUNTERS:
        cnt.setdefault(k, 0)
    own = root is None
    if own:
        root = tempfile.mkdtemp(prefix="c07-", dir=os.getcwd())
    out = []
    tags = []

    def viol(what, key=None):
        v = {"what": what, "case": case}
        if key:
            v["known_key"] = key
        out.append(v)

    rnd = random.Random(case["seed"])
    work = tempfile.mkdtemp(prefix="w-", dir=root)
    scratch = tempfile.mkdtemp(prefix="s-", dir=root)
    try:
        host = clicase.build_host(rnd, nstmt=rnd.randrange(2, 10))
        for k in case["faults"]:
            f = faults.render(k, rnd.choice(["\t", "    ", ""]))
            names = host["linked"] if k in ("second-link", "backward-skip-late-target") else host["linked"] + host["included"]
            clicase.plant(host, rnd, f, where=rnd.choice(names))
        for k in case["warnings"]:
            clicase.plant(host, rnd, faults.render_warning(k, "\t"), where=rnd.choice(host["linked"]))
        if case.get("big_image"):
            clicase.append_last(host, ["\t.blkb 100000", "\t.blkb 100000", f'\t{rnd.choice(["make_bin", "make_wav", "make_bk0010_rom"])} "big7.bin"'], host["linked"][0])
        if case.get("charset_fault"):
            clicase.append_last(host, [f'\tmake_wav "cf9.wav", "{case["charset_fault"]}"'], host["linked"][0])
        if case.get("dual"):
            wl, el, _ = DUALS[case["dual"]]
            first, last = host["linked"][0], host["linked"][-1]
            order = case["dual_order"]
            if order == "warning-first":
                at = 1 if host["texts"][first] and host["texts"][first][0].lower().lstrip().startswith((".link", ". =", ".=")) else 0
                host["texts"][first][at:at] = [wl, "\t.even"]
                clicase.append_last(host, [el], last)
            elif order == "error-first":
                at = 1 if host["texts"][first] and host["texts"][first][0].lower().lstrip().startswith((".link", ". =", ".=")) else 0
                host["texts"][first][at:at] = [el, "\t.even"]
                clicase.append_last(host, [wl], last)
            else:
                clicase.append_last(host, [el], last)
        # dotted symbol names (legal identifiers) so that listings and diagnostics meet them
        if rnd.random() < 0.5:
            host["texts"][rnd.choice(host["linked"])].extend(["dot.ted = 5", "x.y.z = dot.ted + 1"])
        sel = case["selector"]
        expected_outputs = []
        argv_sel = []
        main = host["texts"][host["linked"][0]]
        stem = host["linked"][0][:-4]
        if sel.startswith("o-bin"):
            argv_sel = ["-o", "out/prog.bin"]
            expected_outputs.append("out/prog.bin")
        elif sel == "o-raw":
            argv_sel = ["-o", "prog.raw"]
            expected_outputs.append("prog.raw")
        elif sel == "implicit":
            argv_sel = ["--implicit-bin"]
            expected_outputs.append(stem + ".bin")
        if sel.startswith("make"):
            main.append("make_bin \"mk.bin\"")
            if case["seed"] % 3 == 0:
                # the path spelled with a <n> chunk whose value is defined at the very end of the file: the directive can only be
                # evaluated in the final pass, and is as much a request as any other
                main.append("make_raw \"out/mk\"<mk7qq>\"raw\"")
                main.append("mk7qq = 56")
            else:
                main.append("make_raw \"out/mk.raw\"")
            main.append("make_wav \"mk.wav\", \"TAPE\"")
            expected_outputs += ["mk.bin", "out/mk.raw", "mk.wav"]
            if sel == "make+o":
                argv_sel = ["-o", "both.bin"]
                expected_outputs.append("both.bin")
            if sel.startswith("make-bad-dir"):
                main.append("make_raw \"nodir/bad.raw\"")
        if not sel.startswith("make") and case["seed"] % 3 == 1 and not any(".end" in l.lower() for l in host["texts"][host["linked"][-1]]):
            # the program ends with a forward reference and the label it refers to: nothing after it makes the assembler look at it again
            clicase.append_last(host, [rnd.choice(["\tbr fin9qq", "\tmov fin9qq, r0", "\t.word fin9qq", "\tsob r1, fin8qq\n\tbne fin9qq"]).replace("sob r1, fin8qq", "nop"), "fin9qq:"],
                                host["linked"][-1])
        if case.get("big_image"):
            expected_outputs.append("big7.bin")
        lst = None
        if sel.endswith("+lst"):
            argv_sel.append("--lst")
            lst = "out/prog.lst" if sel.startswith("o-bin") else "mk.lst"
            expected_outputs.append(lst)
        no_nl = set()
        if rnd.random() < 0.4:
            # a file whose last line has no newline, possibly with a warning-only statement on that very line
            last_file = host["linked"][-1]
            no_nl.add(last_file)
            if rnd.random() < 0.7 and not sel.startswith("make"):
                w = faults.render_warning(rnd.choice(["byte-without-operand", "list-directive", "page-directive", "legacy-deferred", "excess-hash", "implicit-index"]), "\t")
                clicase.append_last(host, [l for l in w["lines"] if l.strip() != ".even"], last_file)
        clicase.write_host(host, work, final_newline=no_nl if no_nl else True)
        os.makedirs(os.path.join(work, "out"), exist_ok=True)
        pre = {}
        if case["preexisting"]:
            for p in expected_outputs:
                with open(os.path.join(work, p), "wb") as fh:
                    fh.write(b"PRECIOUS OLD CONTENT " + p.encode())
                pre[p] = b"PRECIOUS OLD CONTENT " + p.encode()
        has_fault = bool(case["faults"]) or bool(case.get("dual"))
        results = []
        for pt, (fmt, wsel) in enumerate(case["matrix"]):
            # restore the directory to its initial state between option points
            for dirpath, _dn, fns in os.walk(work):
                for fn in fns:
                    rel = os.path.relpath(os.path.join(dirpath, fn), work)
                    if rel not in host["texts"] and rel not in pre:
                        os.unlink(os.path.join(dirpath, fn))
            for p, content in pre.items():
                with open(os.path.join(work, p), "wb") as fh:
                    fh.write(content)
            argv = list(host["linked"]) + argv_sel + ["--report-format", fmt] + wsel + (["--charset", "utf-8"] if case.get("charset_fault") else [])
            r = cli.run_cli(argv, work, scratch, timeout=120, tag=f"p{pt}")
            cnt["cli_runs"] += 1
            if r["stall"]:
                continue
            label = f"argv={argv[len(host['linked']):]} faults={case['faults']} warnings={case['warnings']} selector={sel}"
            nerr = sum(1 for e in r["events"] if e[0] in ("error", "critical"))
            if idset is not None:
                idset.extend(e[1] for e in r["events"])
            tags.append(f"{(case['faults'] or ['none'])[0]}|{(case['warnings'] or ['-'])[0]}|{sel}|{fmt}|{' '.join(wsel)}")
            if r["internal_error"]:
                viol(f"{label}: internal compiler error banner; stderr tail {r['stderr'][-300:]!r}")
                continue
            if (case["faults"] or case.get("dual") or case.get("charset_fault") or case.get("big_image")) and r["exit"] == 0:
                viol(f"{label}: a program with planted faults {case['faults'] or case.get('dual') or ('image too large for its container' if case.get('big_image') else 'tape name longer than 16 bytes in utf-8')} assembled successfully "
                     f"(exit 0, {nerr} error diagnostics): each catalogue fault is an error")
            if (nerr > 0) != (r["exit"] != 0):
                viol(f"{label}: {nerr} error diagnostics {[e[1] for e in r['events'] if e[0] != 'warning'][:4]} but exit status {r['exit']}")
            if r["exit"] != 0:
                shown = (r["stdout"] if fmt == "bare" else r["stderr"]).decode("utf-8", "replace")
                if "Error" not in shown:
                    viol(f"{label}: the run failed (exit {r['exit']}) without printing any error ({nerr} error diagnostics were emitted: {[e[1] for e in r['events'] if e[0] != 'warning'][:3]})")
            changed = r["diff"]["created"] + r["diff"]["modified"]
            changed = [c for c in changed if not c.endswith("/")]
            if r["exit"] != 0:
                cnt["failed_runs_checked_for_no_output"] += 1
                writes = [o for o in r["opens"] if not o[0].startswith("fd")]
                emit_io = (sel.startswith("make-bad-dir") and any(e[1] == "io-error" for e in r["events"])) or \
                          (bool(case.get("big_image")) and all(e[1] in ("value-out-of-bounds", "io-error") for e in r["events"] if e[0] != "warning"))
                if changed or writes:
                    only_make = set(changed) <= {"mk.bin", "out/mk.raw", "mk.wav"} and all(os.path.basename(w[0]) in ("mk.bin", "mk.raw", "mk.wav", "bad.raw") for w in writes)
                    compile_errors = [e for e in r["events"] if e[0] != "warning" and not (e[1] == "io-error" and "bad" in (e[4] or "") or e[1] == "io-error")]
                    if emit_io and only_make and not [e for e in r["events"] if e[0] != "warning" and e[1] != "io-error" and not (case.get("big_image") and e[1] == "value-out-of-bounds")]:
                        viol(f"{label}: failed run (emit-time io-error on one make_* target) still wrote {changed}", "partial-emit")
                    else:
                        viol(f"{label}: failed run (exit {r['exit']}) created/modified {changed}, write-opens {writes[:4]}")
                for p, content in pre.items():
                    try:
                        with open(os.path.join(work, p), "rb") as fh:
                            now = fh.read()
                    except OSError:
                        now = None
                    if now != content and not ((sel.startswith("make-bad-dir") or case.get("big_image")) and p in ("mk.bin", "out/mk.raw", "mk.wav")):
                        viol(f"{label}: failed run destroyed the pre-existing output {p}")
            else:
                cnt["successful_runs_checked_for_outputs"] += 1
                missing = [p for p in expected_outputs if not os.path.exists(os.path.join(work, p)) or (p in pre and open(os.path.join(work, p), "rb").read() == pre[p])]
                if missing and not (lst and set(missing) == {lst}):
                    viol(f"{label}: successful run (exit 0) did not write the requested outputs {missing}")
                if lst and lst in missing:
                    # the listing may also sit beside the first output under another name: C19 owns its location
                    pass
            files_now = {}
            for dirpath, _dn, fns in os.walk(work):
                for fn in fns:
                    rel = os.path.relpath(os.path.join(dirpath, fn), work)
                    if rel not in host["texts"]:
                        with open(os.path.join(dirpath, fn), "rb") as fh:
                            files_now[rel] = fh.read()
            results.append((fmt, wsel, r["exit"], files_now))
        # relational rule
        for a in range(1, len(results)):
            cnt["option_pairs_compared"] += 1
            r0, ra = results[0], results[a]
            if r0[2] != ra[2] or r0[3] != ra[3]:
                diff_files = sorted(set(r0[3]) ^ set(ra[3])) or [k for k in r0[3] if r0[3][k] != ra[3].get(k)]
                viol(f"faults={case['faults']} warnings={case['warnings']} selector={sel}: options {r0[:2]} give exit {r0[2]}, options {ra[:2]} give exit {ra[2]}; "
                     f"differing files {diff_files[:4]}")
                break
        return (out, tags) if not own else out
    finally:
        shutil.rmtree(work, ignore_errors=True)
        shutil.rmtree(scratch, ignore_errors=True)
        if own:
            shutil.rmtree(root, ignore_errors=True)
