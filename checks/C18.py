"""C18  Assembly is a pure function of its inputs.

Monitors: (1) history checker - a probe program assembled after a history of earlier assemblies in the same process must give the
same observable (status, base, bytes, emitted file list, diagnostics by severity/kind/position) as in a fresh process;
(2) state invariants at quiescent points (try_compute.depth == 0, empty awaiting stack, empty handler stack) after every
assembly that ended by itself; (3) the fresh observables must be identical under different PYTHONHASHSEED values.
Every history runs in a forked child of a worker that has never assembled anything.
"""
import hashlib
import json
import os
import random

PROPERTY = "C18"
LEVEL = "exploration"
RULE = ("histories of up to 12 (quick) / 50 (thorough) earlier assemblies drawn from valid, failing, internally crashing and hostile "
        "(mutated) programs, then each of several probes out of 35 (valid with warnings, failing with several errors, .repeat, multi-file, "
        "include, make_*), compared with the same probe in a fresh process; PYTHONHASHSEED 0-3 (quick) / 0-31 (thorough); "
        "distinct = distinct (history signature, probe) pairs")
ASSUMPTIONS = ["diagnostic text is not compared (it legitimately contains d<counter> names); severity, identifier and positions are",
               "history elements that end only because the logical clock aborted them form a separate stratum: a divergence after such an abort is inconclusive"]
DECIDING_COUNTERS = ["histories", "probe_comparisons", "quiescent_points_checked"]
MIN_DISTINCT = 50
SHARD_TIMEOUT = {"quick": 900, "thorough": 7200}

PROBES = [
    ("valid-plain", [("p.mac", "start: mov #1, r0\n  add r0, r1\n  br start\n .word start, 177777\n")]),
    ("valid-warnings", [("p.mac", ".byte\n.list\n emt #1\n clr @r1\n clr @(r2)\n br 1+2\n1: nop\n")]),
    ("fail-several", [("p.mac", "mov nosuch, r0\n.word 19\n.byte 400\nbr .+1000\n.word 5/0\nlab: nop\nlab: nop\n")]),
    ("fail-critical", [("p.mac", "mov r0, r1\n.ascii \"abc\n nop\n")]),
    ("repeat", [("p.mac", "n = 3\n.repeat n { .word ., 5\n mov #., r1\n }\n.repeat 2 { .repeat 2 { .byte 1 } }\n")]),
    ("multi-file", [("a.mac", "x:: .word y\n mov #z, r0\n z = 5\n"), ("b.mac", "y:: .word x\n z = 7\n .word z\n")]),
    ("include", [("p.mac", ".include \"inc1.mac\"\n.word inc1lab\n.include \"inc2.mac\"\n.include \"inc2.mac\"\n")]),
    ("include-ctx-a", [("p.mac", ".link 1000\nhostv == 5\n.include \"inc3.mac\"\n.word inc3v\ninc3v = 1\n")]),
    ("include-ctx-b", [("p.mac", ".link 40000\n.blkb 6\nhostv == 177\n.include \"inc3.mac\"\n.include \"inc3.mac\"\n")]),
    ("include-ctx-c", [("a.mac", "nop\n.include \"inc3.mac\"\n"), ("b.mac", "hostv:: .word 7\n.include \"inc3.mac\"\n")]),
    # Macro-11 caret brackets: the same closing character at top level in one program and nested inside another bracket in another
    ("caret-nested", [("p.mac", ".word ^/ 1 + ^? 2 ? /\n.word ^? 6 / 2 ?\n")]),
    ("caret-top", [("p.mac", ".word ^? 6 / 2 ?\n.word ^/ 7 ? 1 /\n")]),
    ("caret-invalid", [("p.mac", ".word ^/ ^? 6 /2 ? /\n")]),
    # one statement, but a deep expression tree: whatever this gives alone it gives after any history (also after very long programs)
    ("deep-sum", [("p.mac", ".word " + "1+" * 1999 + "1\n")]),
    ("deep-minus", [("p.mac", ".word " + "-" * 1500 + "1\n")]),
    # character literals the charset cannot encode: an error every time, not only the first time in a process
    # a register name where a value is expected: the same diagnostic whatever was looked up before
    ("register-as-value", [("p.mac", "count = 3\n mov #count, r0\n.word sp\n mov #r1, r0\n.word PC\n")]),
    ("register-as-value-2", [("p.mac", ".word sp\n")]),
    ("bad-char-literal", [("p.mac", ".word 'é\n.word 1\n")]),
    ("bad-char-literal-again", [("q.mac", " nop\n.byte 'é, 1\n")]),
    ("bad-two-char-literal", [("p.mac", ".word \"é€\n")]),
    # directive names written without their dot, and the same words as ordinary names
    ("dotless-directives", [("p.mac", "word 1\n even\n blkw 2\n byte 3\n")]),
    ("nop-even", [("p.mac", "nop even\n")]),
    ("word-as-variable", [("p.mac", "word = 3\nword, 5\nblkw: nop\n br blkw\n")]),
    ("make-turbo", [("p.mac", "make_turbo_wav \"tt.wav\", \"TURBO\"\n .word 1, 177777, 125252\n .ascii \"payload\"\n")]),
    ("make-both", [("p.mac", "make_wav \"n.wav\"\nmake_turbo_wav \"t.wav\"\nmake_bin\n .byte 0, 1, 2, 377\n")]),
    ("make", [("p.mac", "make_bin\nmake_raw \"o.raw\"\nmake_wav \"t.wav\", \"NAME\"\n .word 1\n")]),
    ("link-cancel", [("p.mac", "a: nop\n.link 1000+b-a\nb: nop\n .word a, b\n")]),
    ("lazy-sizes", [("p.mac", ".blkb n\n.even\nl1: .ascii \"x\" <c>\n.even\n.word l1\nn = 3\nc = 65.\n. = . + n\n.word .\n")]),
    ("fp-and-branches", [("p.mac", "ldf (r1)+, ac1\n stf ac1, @#1000\n sob r1, .\n1$: bne 1$\n trap 377\n")]),
    ("strings", [("p.mac", ".ascii \"Hi\" <15> /there/\n.asciz 'z'\n.rad50 \"ABC\" <47>\n.word 'a, \"bc, ^RXYZ\n")]),
    ("fail-late", [("p.mac", "x = y + 1\n.word x\n.blkb z\nz = 0-1\ny = 177777\n")]),
    ("locals", [("p.mac", "a: 1$: br 1$\n br 2$\n2$: nop\nb: 1$: br 1$\n .word 1$\n")]),
    ("extern-all", [("a.mac", ".extern all\np1: .word q1\n"), ("b.mac", "q1:: .word p1\n")]),
    ("unused-errors", [("p.mac", "a1 = nosuch1\nzz9 = nosuch2\nc1 = 5/0\nm5 = 1 << q\nq = 0-1\nb2 = nosuch3 + 1\n nop\n")]),
    ("undefined-after-define", [("p.mac", "v = 10\n.word v, w\n")]),
    # a file whose name starts with a tilde (device names look like that): found beside the source that names it, whatever was opened before
    ("tilde-path", [("p.mac", ".include \"~tilde\"\n.word tilde\ninsert_file \"~tilde\"\nmake_raw \"~outt\"\n")]),
    # compound branch operands whose first number is a local label, for every kind of branch: the same reading every time
    ("sob-fixup", [("p.mac", "1: nop\n sob r0, 1 + 2\n2: bne 2+2\n nop\n sob r3, 2+4\n br 1+2\n")]),
    # definitions where none may stand: reported every time, whatever objects of earlier runs have come and gone
    ("label-in-repeat", [("p.mac", ".repeat 2 { lq: nop }\n")]),
    ("defs-in-repeat", [("p.mac", " nop\n.repeat 3 {\n xq = 5\n 7$: nop\n}\n.repeat 1 { yq: .word 1 }\n")]),
    ("sob-plain", [("p.mac", "lp: nop\n sob r0, lp\n sob r1, .\n sob r2, lp + 2\n7: sob r4, 7\n")]),
    ("tilde-output", [("p.mac", "make_raw \"~outt\"\nmake_bin \"~Outb\"\n nop\n")]),
    # a stray operand after a directive that takes none: what kind of operand it is read as goes by what follows, every time
    ("stray-operand-string", [("p.mac", " nop\n.even /x/\n.odd \"s\"\n.page 'q'\n")]),
    ("stray-operand-number", [("p.mac", " nop\n.even 2\n")]),
    ("stray-operand-number-odd", [("p.mac", ".odd 3\n.page 4 + 1\n")]),
    ("tape-names", [("p.mac", "make_wav \"a.wav\", \"FIRST\"\nmake_wav \"b.wav\", \"SECOND\"\nmake_turbo_wav \"c.wav\", \"\"\nmake_wav \"d.wav\"\n .word 1, 2\n")]),
]

_WSRC = "word 1\n clr @r1\n emt #1\n clr @(r2)\n.byte\n br 1+2\n1: nop\nmov: nop\n.word 'a'\n nop nop\n.list\n"
CLI_PROBES = [
    ("w-all-but-one", _WSRC, ["-Wall", "-Wno-meta-typo", "--report-format", "bare"]),
    ("w-none-but-two", _WSRC, ["-Wno-all", "-Wmeta-typo", "-Wlegacy-deferred", "--report-format", "bare"]),
    ("w-one-then-all", _WSRC, ["-Wno-meta-typo", "-Wall", "--report-format", "bare"]),
    ("w-many", _WSRC, ["-Wall", "-Wno-all", "-Wdefault", "-Wno-excess-hash", "-Wexcess-hash", "-Wno-default", "-Wimplicit-index", "--report-format", "bare"]),
    ("w-classes", _WSRC, ["-Wno-default", "-Wall", "-Wno-label-fixup", "-Wno-not-implemented", "-Wdefault"]),
    ("lst", "".join(f"s{i}q = {(i * 7919) % 64}\nl{i}q: .word s{i}q\n" for i in range(40)), ["-o", "x.bin", "--lst"]),
    ("errors", "a1 = nosuch1\nzz9 = nosuch2\nm5 = 1 << q\nq = 0-1\nb2 = nosuch3 + 1\n nop\n", ["-o", "x.bin", "--report-format", "bare"]),
]

CRASHERS = [
    ".word 2.<<177777\n",                       # astronomic integer -> ValueError while formatting
    ".align 167210<<.\n",                       # OverflowError
    "a=a/2\n.word a\n",                         # DeferredCycle escaping
    ".blkb b\nb:\n",                            # DeferredCycle
    "a: .blkb b-a\nb:\n",                       # DeferredCycle
    "x = x + 1\n.word x\n",                     # never terminates (logical clock stratum)
    "p = q\nq = p\n",                           # never terminates
]
FAILERS = [
    ".repeat 2 { a1: nop }\n", ".repeat 3 { k1 = 1 }\n", " nop\n.repeat 2 { b2: .word 1 }\n.repeat 2 { c3: nop }\n",
    "mov nosuch, r0\n", ".word 19\n", ".byte 400\n", "br .+1000\n", ".ascii \"abc\n", "lab: nop\nlab: nop\n", "mov , r0\n",
    ".word (1+2\n", ".error boom\n", "insert_file \"nosuch.bin\"\n", ".repeat 2 { l: nop }\n", ".link 1000\n.link 2000\n",
    "r0: nop\n", ".extern 5\n", "clrf r6\n", ".word 1<<k\nk=0-1\n",
]
INC_FILES = {
    "inc1.mac": "inc1lab: .word 1, 2\n  mov #inc1lab, r0\n",
    "inc2.mac": ".once\ninc2v = 5\n .byte inc2v\n .even\n",
    "~tilde": "tilde: .word 5\n",
    # content whose meaning depends on where and by whom it is included: '.'-dependent non-linear values, an index operand whose
    # tree is rearranged while it is encoded, a compound branch operand whose first number is a local label, a name the includer exports
    "inc3.mac": "inc3: .word ./2, . % 10., inc3 >> 1\n mov tab3+2*2(r1), r0\n br 1+2\n1: nop\n nop\ntab3: .word hostv, 0\n .repeat 2 { .word ./4 }\n",
}


def plan(tier, seed):
    seeds = range(4) if tier == "quick" else range(32)
    per = 2 if tier == "quick" else 4
    total = 480 if tier == "quick" else 8000
    shards = []
    for hs in seeds:
        for j in range(per):
            shards.append({"hashseed": str(hs), "part": len(shards), "seed": seed, "tier": tier,
                           "count": max(1, total // (len(seeds) * per))})
    return shards


def observable(o, root):
    """What the property says must be reproducible."""
    def rel(p):
        return os.path.relpath(p, root) if isinstance(p, str) and p.startswith(root) else p
    diags = []
    for e in o.events:
        # (offsets and the printed 'file:line:col' form of each span)
        diags.append([e["sev"], e["id"], [[rel(s["file"]), s["start"], s["end"], str(s.get("rs", "")).replace(root, "@R@")] for s in e["spans"]]])
    emitted = []
    for ent in (o.emitted or []):
        row = [ent[2], rel(ent[3])] + [a.hex() if isinstance(a, bytes) else a for a in ent[4:]]
        if o.cls == "ok" and o.code is not None:
            # the container that would be written for this directive (the encoders are part of what must be reproducible)
            try:
                from pdpy11.formats import file_formats
                row.append(hashlib.sha1(file_formats[ent[2]](o.base, o.code, *ent[4:])).hexdigest()[:16])
            except Exception as ex:  # pylint: disable=broad-except
                row.append("encoder raised " + type(ex).__name__)
        emitted.append(row)
    return {"cls": o.cls, "base": o.base, "code": o.code.hex() if o.code is not None else None, "emitted": emitted, "diags": diags,
            "exc": o.exc_type}


TILDE_TEXTS = [".include \"~tilde\"\n", "insert_file \"~tilde\"\n", "make_raw \"~tilde\"\n nop\n", "make_wav \"~outt\"\n nop\n", ".include \"~nosuch\"\n",
               "insert_file \"~Tilde\"\n", "make_bin \"~OUTT\"\n nop\n"]


def near_variant(rnd, files):
    """The probe with one small thing changed: a character inside a quoted string (a tape name, a path, text), a digit of a number, the
    letter case of a word, the name of the source file.  Whatever is remembered about this text must not be taken for the probe's."""
    import re as _re
    files = [[n, t] for n, t in files]
    f = rnd.choice(files)
    how = rnd.choice(["string", "string", "string", "digit", "case", "filename", "newline", "newline"])
    text = f[1]
    if how == "newline":
        # the same length, the line breaks elsewhere: a line break becomes a ';' or a blank, a blank becomes a line break
        nl = [i for i, c in enumerate(text[:-1]) if c == "\n"]
        sp = [i for i, c in enumerate(text) if c == " "]
        if nl:
            i = rnd.choice(nl)
            text = text[:i] + rnd.choice([";", " "]) + text[i + 1:]
            if sp and rnd.random() < 0.5:
                j = rnd.choice(sp)
                text = text[:j] + "\n" + text[j + 1:]
            f[1] = text
            return files
        how = "string"
    if how == "string":
        spots = [m for m in _re.finditer(r"\"([^\"\n]+)\"", text)]
        if spots:
            m = rnd.choice(spots)
            s = m.group(1)
            k = rnd.randrange(len(s))
            c = "X" if s[k] != "X" else "Y"
            if s[k] in "./~\\":
                c = s[k]
            s2 = s[:k] + c + s[k + 1:]
            if rnd.random() < 0.3:
                s2 = s + "Q"
            f[1] = text[:m.start(1)] + s2 + text[m.end(1):]
            return files
        how = "digit"
    if how == "digit":
        spots = [m for m in _re.finditer(r"(?<![\w$.])[0-7]+(?![\w$.])", text)]
        if spots:
            m = rnd.choice(spots)
            d = m.group(0)
            f[1] = text[:m.start()] + d[:-1] + str((int(d[-1]) + 1) % 8) + text[m.end():]
            return files
        how = "case"
    if how == "case":
        spots = [m for m in _re.finditer(r"[A-Za-z_][A-Za-z_0-9]*", text)]
        if spots:
            m = rnd.choice(spots)
            f[1] = text[:m.start()] + m.group(0).swapcase() + text[m.end():]
            return files
    f[0] = "v" + f[0]
    return files


def gen_history(rnd, maxlen, root):
    from vlib import gen
    n = rnd.randrange(0, maxlen + 1)
    hist = []
    for _ in range(n):
        r = rnd.random()
        if r < 0.25:
            name, files = rnd.choice(PROBES)
            hist.append(["probe:" + name, files])
        elif r < 0.28:
            # a source given by a bare relative name (as an API user may do); paths that start with a tilde
            hist.append(["bare:tilde", [["first.mac", rnd.choice(TILDE_TEXTS)]]])
        elif r < 0.32:
            # a long, perfectly ordinary program
            n = rnd.choice([120, 302, 700])
            hist.append(["long-valid", [["h.mac", "".join(f"w{i}: .word {i % 8}, w{max(0, i - 1)}\n" for i in range(n))]]])
        elif r < 0.45:
            hist.append(["fail", [["h.mac", rnd.choice(FAILERS)]]])
        elif r < 0.6:
            hist.append(["crash", [["h.mac", rnd.choice(CRASHERS)]]])
        elif r < 0.8:
            hist.append(["hostile", [["h.mac", gen.hostile_text(rnd, files=("inc1.mac", "inc2.mac", "inc3.mac"))[0]]]])
        else:
            hist.append(["valid-gen", [["h.mac", gen.rand_program_text(rnd, nstmt=rnd.randrange(1, 15), strength=0.2)]]])
    return hist


def run_in_child(fn, out_path, timeout=300):
    """Run fn() in a forked child of this (clean) worker; it must write JSON to out_path."""
    import signal
    import sys
    import time
    sys.stdout.flush()
    sys.stderr.flush()
    pid = os.fork()
    if pid == 0:
        code = 0
        try:
            res = fn()
            with open(out_path, "w", encoding="utf-8") as f:
                json.dump(res, f)
        except BaseException as ex:  # pylint: disable=broad-except
            try:
                with open(out_path, "w", encoding="utf-8") as f:
                    json.dump({"child_error": f"{type(ex).__name__}: {ex}"}, f)
            except Exception:  # pylint: disable=broad-except
                pass
            code = 1
        os._exit(code)  # pylint: disable=protected-access
    deadline = time.time() + timeout
    while True:
        wpid, _st = os.waitpid(pid, os.WNOHANG)
        if wpid == pid:
            break
        if time.time() > deadline:
            os.kill(pid, signal.SIGKILL)
            os.waitpid(pid, 0)
            return {"child_error": "wall-clock watchdog"}
        time.sleep(0.002)
    try:
        with open(out_path, encoding="utf-8") as f:
            return json.load(f)
    except (OSError, ValueError):
        return {"child_error": "no result"}


def assemble_files(files, root, budget=4_000_000, bare=False):
    from vlib import asm
    fl = [(n if bare else os.path.join(root, n), t) for n, t in files]
    return asm.assemble(fl, budget=budget, wall=120, reset=False)


def run_history(history, probes, root):
    """Child side: run the history, then each probe; returns probe observables and quiescent-point leaks."""
    from vlib import asm
    leaks = []
    aborted = False
    hist_sig = []
    import gc
    o = None
    for kind, files in history:
        o = None
        gc.collect()        # (the collector may run at any moment: objects of the earlier assemblies go, their addresses are taken again)
        o = assemble_files(files, root, bare=kind.startswith("bare:"))
        if o.cls == "ok" and o.emitted:
            observable(o, root)          # run the container encoders as a real run would
            if kind.startswith(("bare:", "near:", "probe:")) and o.compiler is not None:
                # ... and write the files (texts of this check's own making only: their targets lie under the scratch directories)
                from pdpy11 import reports as _reports
                try:
                    with _reports.handle_reports(lambda *a: None):
                        o.compiler.emit_files(o.base, o.code)
                except BaseException:  # pylint: disable=broad-except
                    pass
        hist_sig.append(f"{kind}>{o.cls}" + (f":{o.exc_type}" if o.exc_type else ""))
        if o.cls == "nonterm" or o.cls == "stall":
            aborted = True
        elif o.leaks:
            leaks.append([kind, o.cls, o.exc_type, o.leaks, files[0][1][:200]])
    obs = []
    for name in probes:
        files = dict(PROBES)[name]
        o = None
        gc.collect()
        o = assemble_files(files, root)
        obs.append([name, observable(o, root), o.leaks])
        if o.leaks and not aborted:
            leaks.append(["probe:" + name, o.cls, o.exc_type, o.leaks, ""])
    return {"obs": obs, "leaks": leaks, "aborted": aborted, "sig": hist_sig, "leaked_state_now": asm.module_state()}


def run_shard(spec):
    import shutil
    import tempfile
    from vlib import asm, gen  # noqa: F401  (imported before forking; nothing is assembled in this process)
    rnd = random.Random(spec["seed"] * 86028121 + spec["part"])
    res = {"evaluations": 0, "distinct": [], "counters": {k: 0 for k in DECIDING_COUNTERS}, "sets": {"fresh_obs": [], "history_outcomes": []},
           "samples": [], "violations": [], "inconclusive": []}
    cnt = res["counters"]
    cnt["histories_with_clock_abort"] = 0
    cnt["divergences_after_abort_only"] = 0
    root = tempfile.mkdtemp(prefix="c18-", dir=os.getcwd())
    outp = os.path.join(root, "child.json")
    try:
        for name, text in INC_FILES.items():
            with open(os.path.join(root, name), "w", encoding="utf-8") as f:
                f.write(text)
        # fresh observables: every probe alone in its own fresh child
        fresh = {}
        for name, _files in PROBES:
            r = run_in_child(lambda n=name: run_history([], [n], root), outp)
            if "child_error" in r:
                res["inconclusive"].append(f"fresh run of probe {name}: {r['child_error']}")
                continue
            fresh[name] = r["obs"][0][1]
            h = hashlib.sha1(json.dumps(fresh[name], sort_keys=True).encode()).hexdigest()[:12]
            res["sets"]["fresh_obs"].append(f"{name}|{h}")
            cnt["quiescent_points_checked"] += 1
            if r["leaks"]:
                res["violations"].append({"what": f"module state not at rest after a fresh run of probe {name}: {r['leaks']}", "case": {"history": [], "probes": [name], "hashseed": spec["hashseed"]}})
        # the command line itself (option handling, listing, report formats) under this shard's hash seed: same sources and options in a
        # fresh forked child; printed diagnostics (paths made relative), exit status and every written file are compared across seeds
        if spec["part"] % 2 == 0:
            from vlib import cli
            import pdpy11._cli  # noqa: F401  pylint: disable=unused-import
            for name, text, opts in CLI_PROBES:
                work = tempfile.mkdtemp(prefix="cli-", dir=root)
                scratch = tempfile.mkdtemp(prefix="clis-", dir=root)
                with open(os.path.join(work, "p.mac"), "w", encoding="utf-8") as f:
                    f.write(text)
                r = cli.run_cli(["p.mac"] + opts, work, scratch, timeout=120, tag="h")
                if r["stall"]:
                    continue
                files = {}
                for rel in sorted(r["diff"]["created"] + r["diff"]["modified"]):
                    fp = os.path.join(work, rel)
                    if os.path.isfile(fp):
                        with open(fp, "rb") as f:
                            files[rel] = hashlib.sha1(f.read()).hexdigest()[:12]
                printed = (r["stdout"] + b"\n--\n" + r["stderr"]).decode("utf-8", "replace").replace(work, "@W@")
                obs = {"exit": r["exit"], "printed": printed, "files": files}
                h = hashlib.sha1(json.dumps(obs, sort_keys=True).encode()).hexdigest()[:12]
                res["sets"]["fresh_obs"].append(f"cli:{name}|{h}")
                cnt["cli_probes"] = cnt.get("cli_probes", 0) + 1
                shutil.rmtree(work, ignore_errors=True)
                shutil.rmtree(scratch, ignore_errors=True)
        maxlen = 12 if spec["tier"] == "quick" else 50
        for i in range(spec["count"]):
            history = gen_history(rnd, maxlen, root)
            probes = rnd.sample([p[0] for p in PROBES], rnd.randrange(2, 6))
            hot = [p for p in probes if p in ("label-in-repeat", "defs-in-repeat")]
            if not hot and rnd.random() < 0.15:
                probes.append(rnd.choice(["label-in-repeat", "defs-in-repeat"]))
                hot = probes[-1:]
            if hot and rnd.random() < 0.8:
                # (objects that carry a 'reported once' mark are freed and their places taken again: many rounds of the same text)
                history += [["probe:" + hot[0], [list(x) for x in dict(PROBES)[hot[0]]]] for _ in range(rnd.randrange(6, 14))]
            elif rnd.random() < 0.3:
                # the probe's own text several times in a row just before it (objects of the earlier runs are freed and their places
                # taken again by the same allocation pattern)
                pn = rnd.choice(probes)
                history += [["probe:" + pn, [list(x) for x in dict(PROBES)[pn]]] for _ in range(rnd.randrange(3, 9))]
            if rnd.random() < 0.6:
                # near misses of the probes themselves, late in the history
                for pn in rnd.sample(probes, rnd.randrange(1, min(3, len(probes)) + 1)):
                    if rnd.random() < 0.25:
                        # the very same text, given under a bare relative file name
                        kind, var = "bare:near:" + pn, [[n, tx] for n, tx in dict(PROBES)[pn]]
                    else:
                        kind, var = "near:" + pn, near_variant(rnd, dict(PROBES)[pn])
                    history.insert(rnd.randrange(max(0, len(history) - 2), len(history) + 1), [kind, var])
            case = {"history": history, "probes": probes, "hashseed": spec["hashseed"]}
            vs, info = check_history(case, fresh, root, outp, cnt)
            res["violations"].extend(vs)
            res["inconclusive"].extend(info.get("inconclusive", []))
            res["evaluations"] += 1
            cnt["histories"] += 1
            sig = ",".join(sorted(set(info.get("sig", []))))
            res["sets"]["history_outcomes"].extend(info.get("sig", []))
            for p in probes:
                res["distinct"].append(f"{hashlib.sha1(repr(info.get('sig')).encode()).hexdigest()[:10]}|{p}")
            if i < 2:
                res["samples"].append({"history": info.get("sig"), "probes": probes, "hashseed": spec["hashseed"]})
    finally:
        shutil.rmtree(root, ignore_errors=True)
    return res


def check_history(case, fresh, root, outp, cnt):
    out = []
    info = {}
    r = run_in_child(lambda: run_history(case["history"], case["probes"], root), outp)
    if "child_error" in r:
        info["inconclusive"] = [f"history child: {r['child_error']}"]
        return out, info
    info["sig"] = r["sig"]
    if r["aborted"]:
        cnt["histories_with_clock_abort"] += 1
    cnt["quiescent_points_checked"] += len(case["history"]) + len(case["probes"])
    for leak in r["leaks"]:
        out.append({"what": f"module state not at rest at a quiescent point after {leak[0]} (outcome {leak[1]} {leak[2] or ''}): {leak[3]}; input: {leak[4]!r}",
                    "case": case})
    for name, obs, _leaks in r["obs"]:
        if name not in fresh:
            continue
        cnt["probe_comparisons"] += 1
        if obs != fresh[name]:
            diff = [k for k in obs if obs[k] != fresh[name][k]]
            if r["aborted"]:
                cnt["divergences_after_abort_only"] += 1
                continue
            out.append({"what": f"probe '{name}' after history {r['sig']} differs from a fresh process in {diff}: "
                                f"{ {k: (str(fresh[name][k])[:150], str(obs[k])[:150]) for k in diff} }", "case": case})
    return out, info


def finish(agg, tier):
    """Cross-hashseed comparison of the fresh observables."""
    per = {}
    for item in agg["sets"].get("fresh_obs", ()):
        name, h = item.split("|")
        per.setdefault(name, set()).add(h)
    for name, hs in sorted(per.items()):
        if len(hs) > 1:
            agg["violations"].append({"what": f"probe '{name}' gives {len(hs)} different results under different PYTHONHASHSEED values",
                                      "case": {"history": [], "probes": [name], "hashseed": "0", "cross_hashseed": True}})
    return {"probes": len(per), "hashseeds": 4 if tier == "quick" else 32}


def run_case(case):
    import shutil
    import tempfile
    root = tempfile.mkdtemp(prefix="c18-", dir=os.getcwd())
    outp = os.path.join(root, "child.json")
    try:
        for name, text in INC_FILES.items():
            with open(os.path.join(root, name), "w", encoding="utf-8") as f:
                f.write(text)
        fresh = {}
        for name in case["probes"]:
            r = run_in_child(lambda n=name: run_history([], [n], root), outp)
            if "child_error" not in r:
                fresh[name] = r["obs"][0][1]
        cnt = {k: 0 for k in DECIDING_COUNTERS + ["histories_with_clock_abort", "divergences_after_abort_only"]}
        vs, _ = check_history(case, fresh, root, outp, cnt)
        return vs
    finally:
        shutil.rmtree(root, ignore_errors=True)
