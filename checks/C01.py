"""C01  Machine-code fidelity of every instruction form.

Monitor: reference-model monitor on the statement trace / image.  Every enumerated instruction statement is assembled
by the real assembler (batched ~300 per program, mixed with data so addresses vary); the words it produced are read by
the independent decoder of vlib/pdp11_ref.py at the statement's address and must give the abstract instruction back:
same canonical operation, registers, modes, operand order, extension values, and exactly the emitted length.
"""
import random

PROPERTY = "C01"
LEVEL = "exploration"
RULE = ("enumeration: every one of the 252 mnemonics x the operand forms its reference signature admits (68 general forms = 8 modes x 8 "
        "registers + #n, @#n, n, @n; FP forms with ac0-5; accumulators 0-3; every value of every inline field; br x all 256 "
        "displacements, other branches x boundary displacements (thorough: all); sob x all 64) x extension values x link bases; "
        "distinct = distinct (canonical op, operand-form tuple) decoded")
ASSUMPTIONS = [
    "reference opcodes of ~25 non-DEC / maintenance mnemonics (1801VM2 start/step/rd/..., medlsi, u3000, med74c, ldub/mns/mpp/mrs/stq0) are a frozen transcription: change detection only",
    "legacy spellings and negative inline numbers are not used here (C10 owns spelling)",
]
DECIDING_COUNTERS = ["insn_statements_decoded", "programs"]
MIN_DISTINCT = 500

BASES_Q = [0o1000, 0, 0o100000]
BASES_T = [0o1000, 0, 0o100000, 0o2, 0o40000, 0o157776, 0o170000, 0o77776]
VALUES = [0, 1, 2, 0o77777, 0o100000, 0o177777, 0o177776, 0o123456, 0o401, 0o252, 0o125252, 0o1000]


def plan(tier, seed):
    n = 16 if tier == "quick" else 48
    return [{"part": i, "parts": n, "seed": seed, "tier": tier} for i in range(n)]


def general_forms(fp=False):
    """(tag, kind, mode, reg) for every general operand form."""
    forms = []
    for r in range(8):
        if fp:
            if r < 6:
                forms.append((f"ac{r}", "acc", 0, r))
        else:
            forms.append((f"r{r}", "reg", 0, r))
    for m in range(1, 6):
        for r in range(8):
            forms.append((f"m{m}r{r}", "mode", m, r))
    for r in range(8):
        forms.append((f"x(r{r})", "idx", 6, r))
        forms.append((f"@x(r{r})", "idxd", 7, r))
    forms += [("#n", "imm", 2, 7), ("@#n", "abs", 3, 7), ("n", "rel", 6, 7), ("@n", "reld", 7, 7)]
    return forms


def build_operand(form, value_expr):
    tag, kind, m, r = form
    if kind == "reg":
        return ("reg", r)
    if kind == "acc":
        return ("acc", r)
    if kind == "mode":
        return ("mode", m, r)
    if kind in ("idx", "idxd"):
        return (kind, value_expr, r)
    return (kind, value_expr)


def enumerate_insns(tier, rnd):
    """Yields (mnemonic, [form or special...]) abstract instruction recipes: list of (name, ops_recipe, tag)."""
    from vlib import pdp11_ref
    thorough = tier == "thorough"
    G = general_forms()
    F = general_forms(fp=True)
    partners = [G[3], G[8 + 5], G[64 - 2], G[66]]   # r3, (r5), @x(r7)-ish, n : asymmetric
    out = []
    nvals = 2 if not thorough else 6
    for name, (canon, kinds, fixed) in sorted(pdp11_ref.MNEMONICS.items()):
        ks = "".join(k[0] for k in kinds) if kinds else ""
        ks = [k for k in kinds]
        sig = ",".join(ks)
        if not ks:
            out.append((name, [], canon))
        elif sig == "G":
            for f in G:
                for _ in range(nvals):
                    out.append((name, [("G", f)], f"{canon}|{f[0]}"))
        elif sig == "F":
            for f in F:
                for _ in range(nvals):
                    out.append((name, [("G", f)], f"{canon}|{f[0]}"))
        elif sig == "G,G":
            if thorough:
                for f in G:
                    for g in G:
                        out.append((name, [("G", f), ("G", g)], f"{canon}|{f[0]}|{g[0]}"))
            else:
                for f in G:
                    for p in partners:
                        out.append((name, [("G", f), ("G", p)], f"{canon}|{f[0]}|{p[0]}"))
                        out.append((name, [("G", p), ("G", f)], f"{canon}|{p[0]}|{f[0]}"))
        elif sig == "R":
            for r in range(8):
                out.append((name, [("R", r)], f"{canon}|r{r}"))
        elif sig in ("R,G", "G,R"):
            regs_full = range(8)
            for f in G:
                for r in (regs_full if thorough else (1, 4, 7)):
                    ops = [("R", r), ("G", f)] if sig == "R,G" else [("G", f), ("R", r)]
                    out.append((name, ops, f"{canon}|r{r}|{f[0]}"))
            for r in range(8):
                for f in partners:
                    ops = [("R", r), ("G", f)] if sig == "R,G" else [("G", f), ("R", r)]
                    out.append((name, ops, f"{canon}|r{r}|{f[0]}"))
        elif sig in ("F,A", "A,F", "G,A", "A,G"):
            forms = F if "F" in sig else G
            for f in forms:
                for a in range(4):
                    ops = [("G", f), ("A", a)] if sig[0] in "FG" else [("A", a), ("G", f)]
                    out.append((name, ops, f"{canon}|ac{a}|{f[0]}"))
        elif sig in ("N3", "N6", "N8"):
            for v in range(1 << int(sig[1])):
                out.append((name, [("N", v)], f"{canon}|{v}"))
        elif sig == "B":
            if name == "br" or thorough:
                disps = range(-128, 128)
            else:
                disps = [-128, -127, -2, -1, 0, 1, 2, 126, 127]
            for d in disps:
                out.append((name, [("B", d)], f"{canon}|d{d}"))
        elif sig == "R,S":
            for d in range(64):
                out.append((name, [("R", (d * 3) % 8), ("S", d)], f"{canon}|r{(d * 3) % 8}|d{d}"))
            for r in range(8):
                out.append((name, [("R", r), ("S", 1)], f"{canon}|r{r}|d1"))
        else:
            raise ValueError(f"unhandled signature {sig} for {name}")
    # '(pc)+' / '@(pc)+' written out next to another operand with an extension word: the hardware would take that
    # word as the (pc)+ operand; the statement's meaning is not a 'legal combination' in the sense of the property
    def peculiar(recipe):
        gs = [x for k, x in recipe if k == "G"]
        explicit = [g for g in gs if g[1] == "mode" and g[2] in (2, 3) and g[3] == 7]
        with_ext = [g for g in gs if g[1] in ("idx", "idxd", "imm", "abs", "rel", "reld")]
        return bool(explicit) and bool(with_ext)
    return [r for r in out if not peculiar(r[1])]


def run_shard(spec):
    from vlib import apm, pdp11_ref
    rnd = random.Random(spec["seed"] * 15485863 + spec["part"])
    res = {"evaluations": 0, "distinct": [], "counters": {k: 0 for k in DECIDING_COUNTERS}, "sets": {"mnemonics": [], "canonical_ops": []},
           "samples": [], "violations": [], "inconclusive": []}
    cnt = res["counters"]
    cnt["trace_entries_matched"] = 0
    cnt["ext_words_checked"] = 0
    recipes = enumerate_insns(spec["tier"], random.Random(spec["seed"]))
    random.Random(spec["seed"] + 17).shuffle(recipes)
    mine = recipes[spec["part"]::spec["parts"]]
    bases = BASES_Q if spec["tier"] == "quick" else BASES_T
    if spec["part"] == 0:
        # second monitor: the set of accepted mnemonics
        from pdpy11.insns import instructions
        accepted = {k.lower() for k in instructions}
        refset = set(pdp11_ref.MNEMONICS)
        for n in sorted(refset - accepted):
            res["violations"].append({"what": f"mnemonic '{n}' of the reference set is not accepted by the assembler", "case": {"kind": "names"}})
        extra = sorted(accepted - refset)
        if extra:
            res["inconclusive"].append(f"mnemonics accepted by the assembler but unknown to the reference (not judged): {extra}")
        cnt["mnemonic_set_compared"] = len(refset)
    # branch displacements just outside the field: whatever the assembler accepts must decode to the target that was written
    if spec["part"] == 1 % spec["parts"]:
        for name in sorted(pdp11_ref.BRANCHES) + ["sob"]:
            for d in ((128, 129, -129, -130) if name != "sob" else (-1, -2, 64, 65)):
                k = 2 + 2 * d if name != "sob" else 2 - 2 * d
                e = ("bin", "+", ("dot",), apm.num(k, "d")) if k >= 0 else ("bin", "-", ("dot",), apm.num(-k, "d"))
                ops = ([("reg", 2)] if name == "sob" else []) + [("br", e)]
                f = apm.SrcFile("/c01/main.mac", [apm.link(apm.num(0o2000)), apm.blk(".blkb", apm.num(0o600)), apm.insn(name, *ops), apm.blk(".blkb", apm.num(0o600))])
                case = {"kind": "brlimit", "text": apm.r_file(f), "name": name, "target": 0o2000 + 0o600 + k}
                res["violations"].extend(run_case(case, cnt))
                cnt["out_of_field_branches"] = cnt.get("out_of_field_branches", 0) + 1
                res["evaluations"] += 1
    for i in range(0, len(mine), 300):
        group = mine[i:i + 300]
        base = bases[(i // 300 + spec["part"]) % len(bases)]
        case = build_case(group, base, rnd)
        vs = run_case(case, cnt)
        res["violations"].extend(vs)
        cnt["programs"] += 1
        res["evaluations"] += len(group)
        for name, _ops, tag in group:
            res["distinct"].append(tag)
            res["sets"]["mnemonics"].append(name)
            res["sets"]["canonical_ops"].append(tag.split("|")[0])
        if i == 0:
            res["samples"].append({"base": oct(base), "first_lines": case["text"].splitlines()[:12]})
    return res


CHARSETS = ["bk", "bk", "koi8-r", "cp1251", "cp866"]


def build_case(group, base, rnd):
    # the output charset is part of what a character-literal operand denotes: programs of one shard (one process) use different
    # charsets, and the same Cyrillic literals recur among them
    cs = rnd.choice(CHARSETS)
    case = _build_case(group, base, rnd, cs)
    case["charset"] = cs
    return case


def _build_case(group, base, rnd, cs):
    """Turn recipes into an APM program + rendered text + the abstract statements (JSON-able)."""
    from vlib import apm
    stmts = [apm.link(apm.num(base))]
    syms = []
    abstract = []

    locno = [9]

    def value_expr():
        v = rnd.choice(VALUES + [rnd.randrange(0x10000)])
        roll = rnd.random()
        if roll < 0.25:
            name = rnd.choice(["k{}", "k{}", "ac1sav{}", "ac0tmp{}", "AC5x{}", "r1x{}", "sp{}", "pcount{}", "ac{}"]).format(len(syms) + 6)
            syms.append((name, v))
            return ("sym", name)
        if roll < 0.35:
            name = f"k{len(syms) + 6}"
            syms.append((name, v - 5))
            return ("bin", "+", ("sym", name), apm.num(5))
        if roll < 0.45 and v >= 0x8000:
            return apm.num(v - 0x10000, rnd.choice([None, None, "d", "^X", "^O", "^D", "^B", "x"]))      # negative spelling of the same word, in any radix
        if roll < 0.6:
            # the same word through an expression whose right operand nests (a looser operator left of a tighter one), so that
            # an index register written after it binds to the innermost right operand first
            b, c = rnd.randrange(1, 8), rnd.randrange(1, 8)
            shape = rnd.randrange(4)
            if shape == 0:
                return ("bin", "+", apm.num(v - b * c), ("bin", "*", apm.num(b), apm.num(c))) if v >= b * c else \
                       ("bin", "-", apm.num(v + b * c), ("bin", "*", apm.num(b), apm.num(c)))
            if shape == 1:
                lo = v & 0o77
                return ("bin", "!", apm.num(v & ~0o77), ("bin", "+", apm.num(lo // 2), apm.num(lo - lo // 2)))
            if shape == 2:
                name = f"k{len(syms) + 6}"
                syms.append((name, v & 0o177400))
                return ("bin", "+", ("sym", name), ("bin", "*", apm.num(v & 0o377), ("bin", ">>", apm.num(8, "d"), apm.num(3))))
            return ("bin", "&", apm.num(v | 0o200000), ("bin", "-", apm.num(0o200000), apm.num(1)))
        return apm.num(v, rnd.choice([None, None, "d", "x"]))

    for name, recipe, tag in group:
        ops = []
        for kind, x in recipe:
            if kind == "G":
                ops.append(build_operand(x, value_expr()))
            elif kind == "R":
                ops.append(("reg", x))
            elif kind == "A":
                ops.append(("acc", x))
            elif kind == "N":
                ops.append(("inl", apm.num(x, rnd.choice([None, "d"]))))
            elif kind == "B":
                k = 2 + 2 * x
                ops.append(("br", ("bin", "+", ("dot",), apm.num(k, "d")) if k >= 0 else ("bin", "-", ("dot",), apm.num(-k, "d"))))
            elif kind == "S":
                k = 2 - 2 * x
                ops.append(("br", ("bin", "+", ("dot",), apm.num(k, "d")) if k >= 0 else ("bin", "-", ("dot",), apm.num(-k, "d"))))
        stmts.append(apm.insn(name, *ops))
        if rnd.random() < 0.05:
            # a branch / sob to a numeric local label of two or more digits (the name is its spelling, not its value), a few words back
            locno[0] += 1
            while any(c in "89" for c in str(locno[0])):
                locno[0] += 1
            nm = str(locno[0]) + rnd.choice(["", "", "$"])
            stmts.append(apm.label(nm))
            for _ in range(rnd.randrange(0, 3)):
                stmts.append(apm.insn("nop"))
            bn = rnd.choice(["br", "bne", "bcs", "sob"])
            stmts.append(apm.insn(bn, *([("reg", rnd.randrange(6))] if bn == "sob" else []), ("br", ("loc", nm))))
        if rnd.random() < 0.08:
            # the same spelling at several addresses with a location-dependent inline field
            en, mask = rnd.choice([("trap", 0o377), ("emt", 0o377), ("mark", 0o77), ("spl", 7)])
            stmts.append(apm.insn(en, ("inl", ("bin", "&", ("bin", "/", ("dot",), apm.num(2)), apm.num(mask)))))
        if rnd.random() < 0.05:
            # operand values spelled as radix-50 and character literals of one, two or three characters
            lit = rnd.choice([("r50", "".join(rnd.choice("ABCXYZ019$.%") for _ in range(rnd.randrange(1, 4)))), ("chr", rnd.choice("AZaz09#")),
                              ("chr", rnd.choice("AZaz") + rnd.choice("09bY")),
                              ("chr", rnd.choice("яжбЮЩ")), ("chr", rnd.choice("яжZ") + rnd.choice("бЮ1"))])
            stmts.append(rnd.choice([apm.insn("mov", ("imm", lit), ("reg", rnd.randrange(6))), apm.insn("cmp", ("idx", lit, rnd.randrange(6)), ("abs", lit)),
                                     apm.insn("bis", ("imm", ("bin", "+", lit, apm.num(1))), ("mode", 1, rnd.randrange(6)))]))
        if rnd.random() < 0.15:
            stmts.append(rnd.choice([apm.data(".word", apm.num(rnd.randrange(0x10000))), apm.blk(".blkb", apm.num(2 * rnd.randrange(0, 6))),
                                     apm.data(".byte", apm.num(1), apm.num(2))]))
    if rnd.random() < 0.4 and len(stmts) > 30:
        # a run of the statements as the body of a '.repeat': every copy is a statement of its own, at its own address
        a = rnd.randrange(1, len(stmts) - 25)
        b = a + rnd.randrange(5, 25)
        if not any(st.labels or (st.k == "insn" and any(o[0] == "br" and o[1][0] == "loc" for o in st.ops)) for st in stmts[a:b]):
            stmts[a:b] = [apm.repeat(apm.num(rnd.choice([2, 2, 3])), stmts[a:b])]
    for name, v in syms:
        stmts.append(apm.assign(name, apm.num(v)))
    layout = rnd.choice(["plain", "plain", "link-last", "included", "included-link-last", "shadowed", "included-twice", "twin", "third"])
    if layout == "third":
        # the same statements as the third of three linked files: it starts where the first two end
        pad1 = [stmts[0], apm.insn("nop"), apm.data(".word", apm.num(rnd.randrange(0x10000))), apm.blk(".blkb", apm.num(2 * rnd.randrange(1, 40)))]
        pad2 = [apm.insn("clr", ("reg", rnd.randrange(6))), apm.blk(".blkb", apm.num(2 * rnd.randrange(1, 40))), apm.data(".word", apm.num(0o125252))]
        prog = apm.Program([apm.SrcFile("pad1.mac", pad1), apm.SrcFile("pad2.mac", pad2), apm.SrcFile("main.mac", stmts[1:])])
        return {"kind": "prog", "layout": layout, "prog": apm.to_json(prog), "base": base, "text": apm.r_file(prog.files[2])}
    if layout == "twin" and syms:
        # a second linked file with the same statements and the same PRIVATE names, which have other values there
        import copy
        twin = copy.deepcopy(stmts[1:])
        mine = {nm for nm, _v in syms}
        for st in twin:
            if st.k == "assign" and st.name in mine:
                st.expr = apm.num((dict(syms)[st.name] ^ 0o400) & 0o177777)
        prog = apm.Program([apm.SrcFile("main.mac", stmts), apm.SrcFile("twin.mac", twin)])
        return {"kind": "prog", "layout": layout, "prog": apm.to_json(prog), "base": base, "text": apm.r_file(prog.files[0])}
    if layout == "twin":
        layout = "plain"
    if layout == "shadowed" and syms:
        # an earlier linked file exports some of the names this file defines for itself (further down): its own definitions are meant
        picked = rnd.sample(syms, min(len(syms), 6))
        lib = [stmts[0], apm.insn("nop")] + [apm.assign(nm, apm.num((val + 0o1234) & 0o177777), extern=True) for nm, val in picked]
        prog = apm.Program([apm.SrcFile("lib.mac", lib), apm.SrcFile("main.mac", stmts[1:])])
        return {"kind": "prog", "layout": layout, "prog": apm.to_json(prog), "base": base, "text": apm.r_file(prog.files[1])}
    if layout == "shadowed":
        layout = "plain"
    if layout != "plain":
        # the same statements while every address is still symbolic: the base is stated after the code, and/or the code sits in an
        # included file that starts at a non-zero offset of the including one
        link, body = stmts[0], stmts[1:]
        if layout == "link-last":
            prog = apm.Program([apm.SrcFile("main.mac", body + [link])])
        else:
            pre = [apm.blk(".blkb", apm.num(2 * rnd.randrange(1, 30))), apm.data(".word", apm.num(rnd.randrange(0x10000)))]
            main = ([link] if layout != "included-link-last" else []) + pre + [apm.include("part.mac"), apm.data(".word", apm.num(0o125252))] + \
                   ([link] if layout == "included-link-last" else [])
            if layout == "included-twice":
                # the same file a second time, further on: every inclusion is a compilation of its own, of the same text
                main += [apm.blk(".blkb", apm.num(2 * rnd.randrange(0, 9))), apm.include("part.mac"), apm.data(".word", apm.num(0o052525))]
            prog = apm.Program([apm.SrcFile("main.mac", main)], aux={"part.mac": apm.SrcFile("part.mac", body)})
        return {"kind": "prog", "layout": layout, "prog": apm.to_json(prog), "base": base, "text": apm.r_file(prog.files[0])}
    f = apm.SrcFile("/c01/main.mac", stmts)
    return {"kind": "prog", "text": apm.r_file(f), "base": base,
            "stmts": [[st.k, getattr(st, "name", None) or getattr(st, "d", None), _json_ops(st)] for st in stmts]} \
        if not any(st.k == "repeat" or st.labels for st in stmts) else \
        {"kind": "prog", "layout": "plain+repeat", "prog": apm.to_json(apm.Program([f])), "base": base, "text": apm.r_file(f)}


def _json_ops(st):
    if st.k == "insn":
        return st.ops
    if st.k == "data":
        return st.exprs
    if st.k in ("blk", "link", "assign"):
        return [st.expr]
    return []


def _tup(x):
    return tuple(_tup(i) for i in x) if isinstance(x, list) else x


def run_case(case, cnt=None):
    from vlib import apm, asm
    if cnt is None:
        cnt = {"insn_statements_decoded": 0, "programs": 0, "trace_entries_matched": 0, "ext_words_checked": 0}
    out = []
    if case.get("kind") == "names":
        return out
    if case.get("kind") == "brlimit":
        from vlib import pdp11_ref
        o = asm.assemble([("/c01/main.mac", case["text"])], wall=60)
        if o.cls == "ok":
            at = 0o600
            w = int.from_bytes(o.code[at:at + 2], "little")
            op, ops, n = pdp11_ref.decode([w], 0o2000 + at)
            got = [x[1] for x in ops if x[0] == "B"]
            if not got or got[0] != case["target"] & 0xFFFF:
                out.append({"what": f"'{case['text'].splitlines()[2]}' (target {case['target']:#o}, outside the displacement field) was accepted and emits {w:#o}, "
                                    f"which a PDP-11 decodes as {op} to {got[0] if got else None:#o}", "case": case})
        return out

    def viol(what):
        out.append({"what": what, "case": case})

    # rebuild the APM program from the JSON statements (replay does not need the generator)
    stmts = []
    for k, name, ops in case.get("stmts", []):
        ops = [_tup(o) for o in ops]
        if k == "insn":
            stmts.append(apm.insn(name, *ops))
        elif k == "data":
            stmts.append(apm.data(name, *ops))
        elif k == "blk":
            stmts.append(apm.blk(name, ops[0]))
        elif k == "link":
            stmts.append(apm.link(ops[0]))
        elif k == "assign":
            stmts.append(apm.assign(name, ops[0]))
    prog = apm.Program([apm.SrcFile("/c01/main.mac", stmts)]) if "prog" not in case else apm.from_json(case["prog"])
    cs = case.get("charset", "bk")
    prog.charset = cs
    cnt["charset_" + cs] = cnt.get("charset_" + cs, 0) + 1
    try:
        ref = apm.Ref(prog).run()
    except (apm.RefError, apm.Unmodelled) as ex:
        viol(f"generator produced a program the reference rejects: {ex}")
        return out
    if "prog" in case:
        import os
        import shutil
        import tempfile
        from vlib import refcheck
        sub = tempfile.mkdtemp(prefix="c01-", dir=os.getcwd())
        try:
            o = asm.assemble(refcheck.materialise(prog, refcheck.render_all(prog), sub), charset=cs, wall=120)
        finally:
            shutil.rmtree(sub, ignore_errors=True)
        cnt["symbolic_address_programs"] = cnt.get("symbolic_address_programs", 0) + 1
    else:
        o = asm.assemble([("/c01/main.mac", case["text"])], charset=cs, wall=120)
    if o.cls == "stall":
        return out
    if o.cls != "ok":
        viol(f"legal instruction forms rejected: outcome {o.cls} {o.exc_type or ''} {o.exc or ''}; first diagnostics "
             f"{[(e['sev'], e['id'], e['spans'][0]['rs'] if e['spans'] else '') for e in o.errors[:3]]}")
        return out
    if o.base != ref.base:
        viol(f"base {o.base:#o} != {ref.base:#o}")
        return out
    # trace (H1) gives per-statement chunks; fall back on slicing the image at the reference addresses
    tr = [t for t in o.trace if t[0] in ("insn", "words", "skip")]
    use_trace = len(tr) == len(ref.segs)
    for i, seg in enumerate(ref.segs):
        lo = seg.addr - ref.base
        chunk = o.code[lo:lo + seg.size]
        if use_trace:
            t_addr = asm_wait(tr[i][3])
            t_chunk = asm_wait(tr[i][4]) if tr[i][4] is not None else b""
            if t_addr != seg.addr or len(t_chunk) != seg.size:
                viol(f"statement {i} ({seg.st.k} {getattr(seg.st, 'name', getattr(seg.st, 'd', ''))}): traced at {t_addr:#o} with {len(t_chunk)} bytes, "
                     f"reference says {seg.addr:#o} with {seg.size} bytes")
                break
            cnt["trace_entries_matched"] += 1
            chunk = bytes(t_chunk)
        if seg.insn is not None:
            msg = apm.check_insn(seg.insn, seg.addr, chunk)
            cnt["insn_statements_decoded"] += 1
            cnt["ext_words_checked"] += max(0, len(chunk) // 2 - 1)
            if msg:
                line = apm.r_stmt(seg.st)[0].strip()
                viol(f"'{line}' at {seg.addr:#o}: {msg}")
                if len(out) > 5:
                    break
        elif chunk != seg.bytes:
            viol(f"data statement {i} at {seg.addr:#o}: {chunk.hex()} != {seg.bytes.hex()}")
            break
    if len(o.code) != len(ref.image):
        viol(f"image length {len(o.code)} != sum of statement sizes {len(ref.image)}")
    return out


def asm_wait(x):
    from pdpy11.deferred import wait
    return wait(x)
