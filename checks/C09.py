"""C09  Relocation law: only absolute address words move with the base.

Monitor: word-wise differential monitor over three real runs of the same source with '.link Bi' substituted.
For generated programs every word has a predicted base coefficient c from the abstract program (opcode words, register/mode
fields, branch words, differences of labels, PC-relative displacements to labels: c = 0; words holding an absolute address:
c = 1; PC-relative displacements to absolute numbers: c = -1); the real images must satisfy
    word_i(Bk) - word_i(B1) == c_i * (Bk - B1)   (mod 2^16)   for k = 2, 3.
For the practice corpus (no model) the H1 trace gives the instruction statements: opcode words and whole branch statements must
be identical across bases and every extension word must move by c*(difference) with one c in {0, 1, -1} for both pairs.
"""
import glob
import os
import random
import re

PROPERTY = "C09"
LEVEL = "exploration"
RULE = ("generated programs mixing absolute references (.word L, #L, @#L, L(rN)), label differences, relative and branch references "
        "(tight generator, layout-neutral bases: multiples of 64) x triples of link bases incl. 0, 0o1000, 0o100000, 0o177000 (wrap of relative "
        "displacements), plus the practice programs re-based; distinct = distinct programs with >= 1 absolute and >= 1 relative/branch reference")
ASSUMPTIONS = ["bases are multiples of 64 so that .even/.align padding is the same at every base (layout-neutral); a run that fails at one base "
               "(address overflow past 0o177777 in an absolute word is a legitimate value-out-of-bounds) is excluded and counted",
               "corpus programs are re-based by substituting their leading '.link'/'.LA'/'. =' value (programs without one get '.link B' prepended)"]
DECIDING_COUNTERS = ["programs", "triples_compared", "words_compared", "absolute_words_moved", "corpus_triples_compared"]
MIN_DISTINCT = 50

BASES = [0, 0o1000, 0o2000, 0o40000, 0o100000, 0o157700, 0o177000, 0o77700, 0o100, 0o170000]


def plan(tier, seed):
    n = 16 if tier == "quick" else 48
    total = 1500 if tier == "quick" else 120000
    return [{"part": i, "parts": n, "seed": seed, "tier": tier, "count": total // n} for i in range(n)]


def with_base(prog, base):
    """The same program with its base site ('.link X' wherever it stands, or a leading '. = X') set to `base`."""
    from vlib import apm
    p = apm.from_json(apm.to_json(prog))
    done = False
    for f in p.files:
        for i, s in enumerate(f.stmts):
            if s.k == "link" or (s.k == "dot" and (getattr(s, "is_base", False) or (f is p.files[0] and i == 0))):
                if not done:
                    s.expr = apm.num(base)
                    done = True
    if not done:
        p.files[0].stmts.insert(0, apm.link(apm.num(base)))
    return p


def assemble_same_place(prog, root, sub):
    """Assemble under ONE directory: the same file names again and again, in one process, for one base after the other (whatever
    the assembler remembers about a file by its name must not carry a base with it)."""
    from vlib import asm, refcheck
    texts = refcheck.render_all(prog)
    files = refcheck.materialise(prog, texts, sub)
    return asm.assemble(files, charset=prog.charset, wall=120), texts


def gen_pic_program(rnd):
    """Position-independent code: refers to its own labels only through branches, relative operands and label differences."""
    from vlib import apm
    n = rnd.randrange(4, 14)
    labels = [f"pc{i}" for i in range(rnd.randrange(2, 5))]
    pos = sorted(rnd.sample(range(n + 1), len(labels)))
    stmts = [apm.link(apm.num(0o1000))]
    li = 0
    nodata = rnd.random() < 0.35

    def diff():
        a, b = rnd.choice(labels), rnd.choice(labels)
        return ("grp", ("bin", "-", ("sym", a), ("sym", b)))
    for i in range(n + 1):
        while li < len(labels) and pos[li] == i:
            stmts.append(apm.label(labels[li]))
            li += 1
        if i == n:
            break
        r = rnd.random()
        near = labels[max(0, li - 1):li + 1]
        if r < 0.2:
            stmts.append(apm.insn(rnd.choice(["mov", "add", "cmp"]), ("imm", ("bin", "/", diff(), apm.num(2))), ("reg", rnd.randrange(6))))
        elif r < 0.4:
            stmts.append(apm.insn(rnd.choice(["clr", "tst", "inc", "jmp"]), (rnd.choice(["rel", "reld"]), ("sym", rnd.choice(labels)))))
        elif r < 0.55:
            stmts.append(apm.insn(rnd.choice(["mov", "bis"]), ("rel", ("sym", rnd.choice(labels))), ("rel", ("bin", "+", ("sym", rnd.choice(labels)), apm.num(2)))))
        elif r < 0.7 and near:
            stmts.append(apm.insn(rnd.choice(["br", "bne", "beq", "bcc"]), ("br", ("sym", rnd.choice(near)))))
        elif r < 0.78 and near:
            stmts.append(apm.insn("sob", ("reg", rnd.randrange(6)), ("br", ("sym", near[0]))))
        elif r < 0.9 and not nodata:
            stmts.append(apm.data(".word", diff(), apm.num(rnd.randrange(0x10000)), ("bin", "-", ("dot",), ("sym", rnd.choice(labels)))))
        else:
            stmts.append(apm.blk(".blkb", apm.num(2 * rnd.randrange(0, 6))))
    aux = {}
    if rnd.random() < 0.35 and len(stmts) > 6:
        # two stretches of the program live in two included files (labels exported): references and label differences then run between
        # the two included files and the including one
        cuts = sorted(rnd.sample(range(1, len(stmts)), 4))
        for name, (a, b) in (("pb9.mac", (cuts[2], cuts[3])), ("pa9.mac", (cuts[0], cuts[1]))):
            moved = [apm.label(s.labels[0][0], extern=True) if (s.k == "nop" and s.labels) else s for s in stmts[a:b]]
            aux[name] = apm.SrcFile(name, moved)
            stmts[a:b] = [apm.include(name)]
        stmts[:] = [apm.label(s.labels[0][0], extern=True) if (s.k == "nop" and s.labels) else s for s in stmts]
    if rnd.random() < 0.5:
        # the base stated after the code, or somewhere in it: every address is symbolic while the operands are encoded
        link = stmts.pop(0)
        stmts.insert(rnd.choice([len(stmts), len(stmts), rnd.randrange(1, len(stmts) + 1)]), link)
    if rnd.random() < 0.25 and not aux:
        # an included module that states its own origin (an overlay): its labels are fixed numbers whatever the base of the program is, so
        # its code - absolute references to its own labels included - is the same at every base; the program goes on after it
        org = rnd.choice([0o40000, 0o100000, 0o2000, 0o157000])
        ov = [rnd.choice([apm.dotassign(apm.num(org)), apm.link(apm.num(org))]), apm.label("ov0"),
              apm.insn("mov", ("imm", ("sym", "ov1")), ("reg", rnd.randrange(6))), apm.insn(rnd.choice(["clr", "inc"]), ("rel", ("sym", "ov1")))]
        if rnd.random() < 0.6:
            ov.append(apm.insn(rnd.choice(["br", "bne"]), ("br", ("sym", rnd.choice(["ov0", "ov1"])))))
        ov += [apm.label("ov1"), apm.data(".word", ("sym", "ov0"), ("bin", "-", ("sym", "ov1"), ("sym", "ov0")), ("sym", "ov1"))]
        aux["ovl9.mac"] = apm.SrcFile("ovl9.mac", ov)
        stmts.insert(rnd.randrange(1, len(stmts) + 1), apm.include("ovl9.mac"))
    return apm.Program([apm.SrcFile("f0.mac", stmts)], aux=aux)


def coefficients(prog, b1, b2):
    """Per image word: predicted coefficient of the base, from the reference evaluated at two bases."""
    from vlib import apm
    r1 = apm.Ref(with_base(prog, b1)).run()
    r2 = apm.Ref(with_base(prog, b2)).run()
    if len(r1.segs) != len(r2.segs) or len(r1.image) != len(r2.image):
        raise apm.Unmodelled("layout depends on the base")
    coeff = {}          # byte offset of a word -> c
    kinds = {}
    delta = b2 - b1
    for s1, s2 in zip(r1.segs, r2.segs):
        off = s1.addr - b1
        if s2.addr - b2 != off or s1.size != s2.size:
            raise apm.Unmodelled("layout depends on the base")
        if s1.insn is not None:
            coeff[off] = 0
            kinds[off] = "opcode"
            k = off + 2
            for e1, e2 in zip(s1.insn[1], s2.insn[1]):
                if e1[0] == "G" and e1[3] is not None:
                    d = (e2[3] - e1[3])
                    c = _coef(d, delta)
                    coeff[k] = c
                    kinds[k] = "ext"
                    k += 2
        elif s1.bytes is not None and s1.st.k in ("data", "wordlist") and (s1.st.k == "wordlist" or s1.st.d == ".word"):
            for j in range(0, s1.size, 2):
                w1 = int.from_bytes(s1.bytes[j:j + 2], "little")
                w2 = int.from_bytes(s2.bytes[j:j + 2], "little")
                coeff[off + j] = _coef(w2 - w1, delta)
                kinds[off + j] = "dataword"
        else:
            if s1.bytes != s2.bytes:
                raise apm.Unmodelled("non-word data depends on the base")
            for j in range(0, s1.size):
                coeff[(off + j) & ~1] = coeff.get((off + j) & ~1, 0)
    return coeff, kinds, len(r1.image)


def _coef(d, delta):
    d16 = d % 65536
    for c in (0, 1, -1, 2, -2):
        if (c * delta) % 65536 == d16:
            return c
    return None


def run_shard(spec):
    import shutil
    import tempfile
    from vlib import apm, tight
    rnd = random.Random(spec["seed"] * 373587883 + spec["part"])
    res = {"evaluations": 0, "distinct": [], "counters": {k: 0 for k in DECIDING_COUNTERS}, "sets": {"coefficients_seen": []},
           "samples": [], "violations": [], "inconclusive": []}
    cnt = res["counters"]
    for k in ("excluded_failed_at_some_base", "excluded_layout_depends_on_base", "relative_to_absolute_words"):
        cnt[k] = 0
    root = tempfile.mkdtemp(prefix="c09-", dir=os.getcwd())
    try:
        for i in range(spec["count"]):
            try:
                prog, ref, info = tight.gen_program(rnd, opts={"include": rnd.random() < 0.2, "insert": rnd.random() < 0.2, "dotskip": True}, base=0o1000,
                                                    nstmt=rnd.randrange(3, 16))
            except RuntimeError:
                continue
            bases = rnd.sample(BASES, 3)
            case = {"kind": "gen", "prog": apm.to_json(prog), "bases": bases}
            vs, nontrivial = run_case(case, cnt, root, res["sets"]["coefficients_seen"])
            res["violations"].extend(vs)
            res["evaluations"] += 1
            cnt["programs"] += 1
            if nontrivial:
                res["distinct"].append(f"{spec['part']}|{i}")
            if i < 1:
                res["samples"].append({"bases": [oct(b) for b in bases], "text": apm.r_file(prog.files[0]).splitlines()[:14]})
        for i in range(spec["count"] // 3):
            prog = gen_pic_program(rnd)
            case = {"kind": "pic", "prog": apm.to_json(prog), "seed": rnd.randrange(1 << 30)}
            vs, nontrivial = run_case(case, cnt, root, res["sets"]["coefficients_seen"])
            res["violations"].extend(vs)
            res["evaluations"] += 1
            if nontrivial:
                res["distinct"].append(f"pic|{spec['part']}|{i}")
        repo = os.environ.get("VERIF_REPO", "/repo")
        dirs = sorted(glob.glob(os.path.join(repo, "tests", "practice", "*", "")))
        for j, d in enumerate(dirs):
            if j % spec["parts"] != spec["part"]:
                continue
            case = {"kind": "corpus", "dir": os.path.relpath(d, repo), "bases": rnd.sample([0o1000, 0o2000, 0o40000, 0o100000, 0o400], 3)}
            vs, nontrivial = run_case(case, cnt, root, res["sets"]["coefficients_seen"])
            res["violations"].extend(vs)
            res["evaluations"] += 1
            if nontrivial:
                res["distinct"].append("corpus|" + case["dir"])
    finally:
        shutil.rmtree(root, ignore_errors=True)
    return res


BASE_LINE = re.compile(r"^([ \t]*)(\.link|\.la)\b[^\n;]*", re.I | re.M)


def rebase_corpus(text, base):
    m = BASE_LINE.search(text)
    if m:
        return text[:m.start()] + f"{m.group(1)}.link {base:o}" + text[m.end():]
    m = re.search(r"^[ \t]*\.[ \t]*=[^\n;]*", text, re.M)
    if m and not re.search(r"^[ \t]*[A-Za-z_.0-9$]+[^\n;=]*$", text[:m.start()].replace("\n\n", "\n"), re.M):
        return text[:m.start()] + f".link {base:o}" + text[m.end():]
    return f".link {base:o}\n" + text


def run_case(case, cnt=None, root=None, coef_set=None):
    import shutil
    import tempfile
    from vlib import apm, asm, meta, pdp11_ref
    if cnt is None:
        cnt = {}
    for k in DECIDING_COUNTERS + ["excluded_failed_at_some_base", "excluded_layout_depends_on_base", "relative_to_absolute_words"]:
        cnt.setdefault(k, 0)
    own = root is None
    if own:
        root = tempfile.mkdtemp(prefix="c09-", dir=os.getcwd())
    out = []
    nontrivial = False

    def viol(what):
        out.append({"what": what, "case": case})

    try:
        if case["kind"] == "pic":
            # position-independent code must be byte-identical at every base, also when the image runs through 0o177777
            prog = apm.from_json(case["prog"])
            srnd = random.Random(case["seed"])
            o0, _t = meta.assemble_prog(with_base(prog, 0o1000), root)
            if o0.cls != "ok":
                # the generator does not guarantee reach (a forward sob, a far branch): not a program, not judged
                cnt["pic_generated_invalid"] = cnt.get("pic_generated_invalid", 0) + 1
                return (out, False) if not own else out
            size = len(o0.code)
            inside = 2 * srnd.randrange(1, max(2, size // 2)) if size > 4 else 2
            bases = [0o40000, 0o157776, 0o177776 - 2 * srnd.randrange(0, 8), (0o200000 - inside) & ~1, 0,
                     # the same addresses written as negative numbers ('.link -4' is 177774)
                     -2 * srnd.randrange(1, 9), -0o1000]
            if not any(st.k in ("data", "wordlist") for st in prog.files[0].stmts) and not prog.aux:
                # code without word data is just as position-independent at an odd base (only word DATA must be aligned)
                bases += [0o1001, 0o157777, 0o40001]
                cnt["pic_odd_bases"] = cnt.get("pic_odd_bases", 0) + 1
            cnt["pic_triples_compared"] = cnt.get("pic_triples_compared", 0) + 1
            sub = tempfile.mkdtemp(prefix="same-", dir=root)
            for b in bases:
                o, _t = assemble_same_place(with_base(prog, b), root, sub)
                if o.cls == "stall":
                    continue
                if o.cls != "ok":
                    viol(f"position-independent program assembles at base 0o1000 but not at base {b:#o} (image {size} bytes, crosses the end of the address space: "
                         f"{b + size > 0o200000}): {meta.describe(o)}; source: {' | '.join(list(_t.values())[0].splitlines()[:20])}")
                    break
                if o.base != (b & 0xFFFF):
                    viol(f"base written as {b} ({b & 0xFFFF:#o}) but the assembled base is {o.base}")
                    break
                if o.code != o0.code:
                    d = meta.first_diff(o.code, o0.code)
                    viol(f"position-independent program differs between base 0o1000 and base {b:#o} at offset {d}: {o0.code[d & ~1:(d & ~1) + 4].hex()} vs {o.code[d & ~1:(d & ~1) + 4].hex()}; "
                         f"source: {' | '.join(list(_t.values())[0].splitlines()[:20])}")
                    break
                cnt["words_compared"] += size // 2
                # ... and it can be stored as such: the container of a position-independent image differs in its base field only
                import struct
                from pdpy11.formats import file_formats
                try:
                    blob = file_formats["bin"](o.base, o.code)
                except Exception as ex:  # pylint: disable=broad-except
                    viol(f"position-independent program assembles at base {b & 0xFFFF:#o} ({size} bytes) but no 'bin' container of it can be made: {type(ex).__name__}: {ex}")
                    break
                if blob != struct.pack("<HH", b & 0xFFFF, size) + o0.code:
                    viol(f"'bin' container of the position-independent image at base {b:#o} is not header(base, length) + image")
                    break
                cnt["pic_containers_compared"] = cnt.get("pic_containers_compared", 0) + 1
            return (out, True) if not own else out
        bases = case["bases"]
        if case["kind"] == "gen":
            prog = apm.from_json(case["prog"])
            try:
                coeff, kinds, n = coefficients(prog, bases[0], bases[1])
                coeff3, _, _ = coefficients(prog, bases[0], bases[2])
            except apm.Unmodelled:
                cnt["excluded_layout_depends_on_base"] += 1
                return (out, False) if not own else out
            except apm.RefError:
                cnt["excluded_failed_at_some_base"] += 1
                return (out, False) if not own else out
            outs = []
            sub = tempfile.mkdtemp(prefix="same-", dir=root)
            for b in bases:
                o, _t = assemble_same_place(with_base(prog, b), root, sub)
                outs.append(o)
            shutil.rmtree(sub, ignore_errors=True)
            if any(o.cls == "stall" for o in outs):
                return (out, False) if not own else out
            if any(o.cls != "ok" for o in outs):
                bad = [(oct(b), meta.describe(o)) for b, o in zip(bases, outs) if o.cls != "ok"]
                viol(f"the reference accepts the program at bases {[oct(b) for b in bases]} but the assembler does not: {bad}")
                return (out, False) if not own else out
            imgs = [o.code for o in outs]
            if len({len(i) for i in imgs}) != 1 or len(imgs[0]) != n:
                viol(f"image length depends on the base: {[len(i) for i in imgs]} (reference {n})")
                return (out, False) if not own else out
            cnt["triples_compared"] += 1
            has_abs = has_rel = False
            for off in range(0, n - 1, 2):
                c = coeff.get(off)
                w = [int.from_bytes(i[off:off + 2], "little") for i in imgs]
                cnt["words_compared"] += 1
                if c is None or coeff3.get(off) != c:
                    continue   # not a single linear class according to the reference: not judged
                if coef_set is not None:
                    coef_set.append(f"{kinds.get(off, 'bytes')}:{c}")
                if c == 1:
                    has_abs = True
                    cnt["absolute_words_moved"] += 1
                if kinds.get(off) == "ext" or kinds.get(off) == "opcode":
                    has_rel = True
                if c == -1:
                    cnt["relative_to_absolute_words"] += 1
                for k in (1, 2):
                    want = (w[0] + c * (bases[k] - bases[0])) % 65536
                    if w[k] != want:
                        viol(f"word at offset {off} ({kinds.get(off, 'data')}, predicted base coefficient {c}): {w[0]:#o} at base {bases[0]:#o} but {w[k]:#o} at base "
                             f"{bases[k]:#o}, expected {want:#o}")
                        break
                if len(out) > 3:
                    break
            nontrivial = has_abs and has_rel
        else:
            repo = os.environ.get("VERIF_REPO", "/repo")
            work = tempfile.mkdtemp(prefix="corp-", dir=root)
            shutil.copytree(os.path.join(repo, case["dir"]), os.path.join(work, "p"))
            main = os.path.join(work, "p", "code.mac")
            with open(main, encoding="utf-8") as f:
                text = f.read()
            runs = []
            for b in bases:
                o = asm.assemble([(main, rebase_corpus(text, b))], wall=300)
                runs.append(o)
            shutil.rmtree(work, ignore_errors=True)
            if any(o.cls != "ok" or o.base != b for o, b in zip(runs, bases)):
                cnt["excluded_failed_at_some_base"] += 1
                return (out, False) if not own else out
            if len({len(o.code) for o in runs}) != 1:
                cnt["excluded_layout_depends_on_base"] += 1
                return (out, False) if not own else out
            cnt["corpus_triples_compared"] += 1
            from pdpy11.deferred import wait
            tr = [[t for t in o.trace if t[0] == "insn" and t[4] is not None and t[2].name.name.lower() in pdp11_ref.MNEMONICS] for o in runs]
            if len({len(t) for t in tr}) != 1:
                return (out, False) if not own else out
            for e0, e1, e2 in zip(*tr):
                chunks = [bytes(wait(e[4])) for e in (e0, e1, e2)]
                addrs = [wait(e[3]) for e in (e0, e1, e2)]
                name = e0[2].name.name.lower()
                if len({len(c) for c in chunks}) != 1 or not chunks[0]:
                    continue
                if addrs[1] - bases[1] != addrs[0] - bases[0]:
                    continue
                cnt["words_compared"] += len(chunks[0]) // 2
                if chunks[0][:2] != chunks[1][:2] or chunks[0][:2] != chunks[2][:2]:
                    viol(f"{case['dir']}: opcode word of '{e0[2].text()[:40]}' changes with the base: {[c[:2].hex() for c in chunks]}")
                    break
                for k in range(2, len(chunks[0]), 2):
                    w = [int.from_bytes(c[k:k + 2], "little") for c in chunks]
                    cs = [c for c in (0, 1, -1) if all((w[0] + c * (bases[j] - bases[0])) % 65536 == w[j] for j in (1, 2))]
                    if not cs:
                        viol(f"{case['dir']}: extension word of '{e0[2].text()[:40]}' is {[oct(x) for x in w]} at bases {[oct(b) for b in bases]}: not c*(difference) for one c in 0, 1, -1")
                        break
                    if 1 in cs:
                        cnt["absolute_words_moved"] += 1
                        nontrivial = True
                if len(out) > 3:
                    break
        return (out, nontrivial) if not own else out
    finally:
        if own:
            shutil.rmtree(root, ignore_errors=True)
