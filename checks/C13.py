"""C13  Output containers carry exactly the image.

Monitors:
 (a) contract wrappers around the real file_formats[...] functions fed with synthetic (base, image, name): the
     produced container is decoded by the independent readers of vlib/containers_ref.py and must map back;
 (b) CLI runs observed by the shim (audit hook + directory snapshots): the set of files created must be exactly
     the set the options/directives name, and each must decode to (base, image[, tape name]).
"""
import os
import random

PROPERTY = "C13"
LEVEL = "exploration"
RULE = ("(a) images of 0-4096 bytes (random and crafted so that the byte sum is 0, 65534, 65535, 65536, 2*65535, 3*65535+-1, ...) x "
        "bases over the 16-bit range x 16-byte tape names through bin/raw/bk_wav/bk_turbo_wav; (b) CLI runs over every output "
        "selector (-o with .bin/other/no extension, --implicit-bin, make_bin/make_raw/make_wav/make_turbo_wav/make_bk0010_rom with "
        "0/1/2 arguments, relative/absolute/.. paths, sources with .mac/.MAC/no suffix, in the cwd or a subdirectory); distinct = "
        "distinct (format or selector signature, size class, checksum-sum class, name length)")
ASSUMPTIONS = [
    "the demodulators in vlib/containers_ref.py embody the BK-0010 tape rules; they were validated against the four pinned fixtures in tests/resources",
    "the turbo format has no specification outside the repository: pulse widths 1/3 after a 4x marker, as the fixtures show",
    "'-o name' selects bin iff the name ends in .bin (case-insensitively), raw otherwise (CLI behaviour, not spelled out in the statement)",
    "a path-less make_raw on a source without .mac suffix (which would name the source itself) is not generated",
]
DECIDING_COUNTERS = ["format_calls_observed", "containers_decoded", "cli_runs", "cli_files_decoded"]
SHARD_TIMEOUT = {"quick": 600, "thorough": 3600}

SUM_TARGETS = [0, 65534, 65535, 65536, 2 * 65535, 2 * 65535 + 1, 3 * 65535 - 1, 3 * 65535, 3 * 65535 + 1, 5 * 65535, 8 * 65535, 15 * 65535]


def plan(tier, seed):
    n = 16 if tier == "quick" else 64
    return [{"part": i, "parts": n, "seed": seed, "tier": tier} for i in range(n)]


def craft_image(rnd, target, maxlen=4096):
    """bytes whose sum is exactly target (if it fits), padded with zeros, shuffled."""
    n_ff, rem = divmod(target, 255)
    body = [255] * n_ff + ([rem] if rem else [])
    if len(body) > maxlen:
        return None
    # split some 0xFF into pairs to vary content
    for _ in range(rnd.randrange(0, 8)):
        if 255 in body and len(body) < maxlen:
            body.remove(255)
            a = rnd.randrange(0, 256)
            body += [a, 255 - a]
    body += [0] * rnd.randrange(0, min(64, maxlen - len(body)) + 1)
    rnd.shuffle(body)
    return bytes(body)


def size_class(n):
    for lim, name in ((0, "0"), (1, "1"), (2, "2"), (16, "<=16"), (255, "<=255"), (256, "256"), (1024, "<=1024"), (4095, "<=4095"), (4096, "4096")):
        if n <= lim:
            return name
    return ">4096"


def sum_class(s):
    if s == 0:
        return "0"
    k, r = divmod(s, 65535)
    if r == 0:
        return f"{k}*65535"
    if r == 1 and k:
        return f"{k}*65535+1"
    if r == 65534:
        return f"{k + 1}*65535-1"
    return "other<65535" if k == 0 else "other"


def gen_image(rnd, i):
    if i % 3 == 0:
        img = craft_image(rnd, rnd.choice(SUM_TARGETS))
        if img is not None:
            return img
    n = rnd.choice([0, 1, 2, 3, rnd.randrange(0, 64), rnd.randrange(0, 600), rnd.randrange(0, 4097), 4096, 255, 256, 257, 258])
    mode = rnd.random()
    if mode < 0.2:
        return bytes([255]) * n
    if mode < 0.3:
        return bytes(n)
    return bytes(rnd.randrange(256) for _ in range(n))


def gen_name16(rnd):
    n = rnd.randrange(0, 17)
    return bytes(rnd.choice([rnd.randrange(0x20, 0x7F), rnd.randrange(0xC0, 0x100), rnd.randrange(256)]) for _ in range(n)).ljust(16, b" ")


def run_shard(spec):
    rnd = random.Random(spec["seed"] * 104729 + spec["part"])
    res = {"evaluations": 0, "distinct": [], "counters": {k: 0 for k in DECIDING_COUNTERS}, "sets": {"selectors": [], "sum_classes": []},
           "samples": [], "violations": [], "inconclusive": []}
    cnt = res["counters"]
    cnt["plain_cli_cross_checks"] = 0
    quick = spec["tier"] == "quick"
    n_img = (640 if quick else 20000) // spec["parts"]
    for i in range(n_img):
        img = gen_image(rnd, i)
        base = rnd.choice([0, 0o1000, 0o100000, 0o177776, 0o177777, rnd.randrange(65536)])
        name = gen_name16(rnd)
        case = {"kind": "fmt", "base": base, "image": img.hex(), "name": name.hex()}
        vs = run_case(case, cnt)
        res["violations"].extend(vs)
        res["evaluations"] += 4
        for fmt in ("bin", "raw", "bk_wav", "bk_turbo_wav"):
            res["distinct"].append(f"{fmt}|{size_class(len(img))}|{sum_class(sum(img))}|{len(name.rstrip(b' '))}")
        res["sets"]["sum_classes"].append(sum_class(sum(img)))
        if i < 1:
            res["samples"].append({"kind": "fmt", "base": base, "len": len(img), "sum": sum(img), "name": name.decode("latin-1")})
    n_cli = (640 if quick else 8000) // spec["parts"]
    for i in range(n_cli):
        case = gen_cli_case(rnd, i)
        case["plain"] = (i % 10 == 0)
        vs = run_case(case, cnt)
        res["violations"].extend(vs)
        res["evaluations"] += 1
        sig = case_signature(case)
        res["sets"]["selectors"].append(sig)
        img = bytes.fromhex(case["image"])
        res["distinct"].append(f"cli|{sig}|{size_class(len(img))}|{sum_class(sum(img))}")
        if i < 2:
            res["samples"].append({k: (v if k != "image" else f"<{len(img)} bytes>") for k, v in case.items()})
    return res


NAME_CHARS = "abcdefghijklmnopqrstuvwxyzABCDEFGHIJKLMNOPQRSTUVWXYZ0123456789 _-+.#$%&()=@[]^{}~!*" + "абвгдежзийклмнопрстуфхцчшщъыьэюяАБВЮЯ"
FILE_CHARS = "abcdefghijklmnopqrstuvwxyzABCDEFGHIJKLMNOPQRSTUVWXYZ0123456789_-+"


def rnd_word(rnd, chars, lo, hi):
    return "".join(rnd.choice(chars) for _ in range(rnd.randrange(lo, hi + 1)))


def gen_cli_case(rnd, i):
    img = gen_image(rnd, i) if rnd.random() < 0.5 else bytes(rnd.randrange(256) for _ in range(rnd.randrange(0, 40)))
    if len(img) > 1500 and rnd.random() < 0.7:
        img = img[:rnd.randrange(0, 300)]
    base = rnd.choice([0o1000, 0, 0o100000, rnd.randrange(0, 0o160000)])
    stem = rnd.choice(FILE_CHARS[:62]) + rnd_word(rnd, FILE_CHARS, 0, 9)
    suffix = rnd.choice([".mac", ".mac", ".MAC", ".Mac", ".asm", "", ".mac.txt"])
    srcdir = rnd.choice(["", "", "sub", "a/b"])
    directives = []
    opts = []
    mode = rnd.choice(["o", "o", "implicit", "dir", "dir", "dir", "o+dir", "implicit+dir", "none", "o+implicit", "o+implicit+dir"])
    if "dir" in mode:
        for _ in range(rnd.choice([1, 1, 1, 2, 3])):
            d = rnd.choice(["make_bin", "make_raw", "make_wav", "make_turbo_wav", "make_bk0010_rom", "make_wav", "make_turbo_wav"])
            nargs = rnd.choice([0, 1, 1, 2]) if d.endswith("wav") else rnd.choice([0, 1, 1])
            if d == "make_raw" and nargs == 0 and suffix.lower() != ".mac":
                nargs = 1
            path = name = None
            if nargs >= 1:
                ext = rnd.choice([".wav", ".WAV", "", ".bin", ".raw", ".x.y", ".bk", ".tap", ".v2.wav"])
                form = rnd.choice(["plain", "plain", "subdir", "dotdot", "abs", "dot", "abs-dot", "abs-slashes", "abs-dotdot"])
                fn = rnd.choice(FILE_CHARS[:62]) + rnd_word(rnd, FILE_CHARS, 0, 9) + ext
                path = {"plain": fn, "subdir": "out/" + fn, "dotdot": "../" + fn if srcdir else "out/../" + fn, "abs": "@ABS@/" + fn, "dot": "./" + fn,
                        # absolute, but not in canonical spelling: still the file it names
                        "abs-dot": "@ABS@/./" + fn, "abs-slashes": "@ABS@//" + fn, "abs-dotdot": "@ABS@/../absdir/" + fn}[form]
            if nargs == 2:
                name = rnd_word(rnd, NAME_CHARS, 0, 16) if rnd.random() < 0.85 else rnd_word(rnd, NAME_CHARS, 17, 24)
                name = name.replace("\\", "")
            directives.append([d, path, name])
    if mode.startswith("o"):
        ext = rnd.choice([".bin", ".BIN", ".raw", "", ".bin.x", ".Bin"])
        form = rnd.choice(["plain", "subdir", "abs"])
        fn = rnd.choice(FILE_CHARS[:62]) + rnd_word(rnd, FILE_CHARS, 0, 7) + ext
        if fn in ("a", "sub", "out", "other", "lib"):
            fn += "0"          # (the name of a directory of the scratch tree is no valid output path)
        if rnd.random() < 0.12:
            # names that only LOOK like an extension: the format goes by a real '.bin' suffix
            fn = rnd.choice(["bin", "BIN", "raw", "Bin", "xbin", "bin.raw", "raw.bin"])
        if form != "plain" and rnd.random() < 0.12:
            # a file whose NAME is '-' or '-.bin' in some directory: a path like any other (only a bare '-' means standard output)
            fn = rnd.choice(["-", "-.bin", "-.raw", "-.BIN"])
        elif form == "plain" and rnd.random() < 0.05:
            form, fn = "dot", rnd.choice(["-", "-.bin", "-.raw"])
        opts = ["-o", {"plain": fn, "subdir": "out/" + fn, "abs": "@ABS@/" + fn, "dot": "./" + fn}[form]]
    lst = False
    if mode == "o" and rnd.random() < 0.15:
        # an output that is itself called *.lst, with --lst: the listing is another file, the output still holds the image
        opts = ["-o", rnd.choice(["sym.lst", "out/dump.lst", "x.lst.lst", "LIST.LST", "@ABS@/a.lst"])]
        lst = True
    if mode.startswith("implicit"):
        opts = ["--implicit-bin"]
    if mode.startswith("o+implicit"):
        # both selectors: the -o target is a requested output in any case; the implicit one beside it is not judged
        opts = opts + ["--implicit-bin"]
    second = rnd.choice([None, None, "zz2nd.mac", "other/tail.mac", "aa0.mac"])
    # the tape name is text in the selected output charset: up to 16 BYTES of it
    charset = rnd.choice([None, None, None, "utf-8", "koi8-r", "cp866", "cp500", "cp037", "utf-16-le", "latin-1"]) if any(d[0].endswith("wav") for d in directives) else None
    if charset in ("utf-8", "cp866") and rnd.random() < 0.7:
        for d in directives:
            if d[0].endswith("wav") and d[1] is not None:
                d[2] = rnd.choice(["ЖУК", "игра", "Тест 1", "Ёж", "Привет", "абвгдежз", "абвгдежзи"])     # 3..9 letters = 6..18 bytes in utf-8
    incdir = rnd.choice([None, None, None, "lib", "lib/deep"]) if directives and not any((d[1] or "").startswith("../") or "/../" in (d[1] or "") for d in directives) else None
    return {"lst": lst, "charset": charset, "incdir": incdir, "stale": rnd.random() < 0.3, "dcase": rnd.choice([0, 0, 0xFFFF, rnd.randrange(1 << 16)]), "kind": "cli", "base": base, "image": img.hex(), "src": stem + suffix, "srcdir": srcdir, "directives": directives,
            "opts": opts, "where": rnd.choice(["top", "bottom", "middle"]), "quote": rnd.choice("\"'/"), "second": second, "mirror": rnd.random() < 0.7, "rerun": rnd.random() < 0.3, "symlink": rnd.random() < 0.2}


def case_signature(case):
    parts = []
    for d, path, name in case["directives"]:
        parts.append(d + ("/p" if path is not None else "") + ("/n" if name is not None else ""))
    if case["opts"]:
        parts.append(case["opts"][0] + (os.path.splitext(case["opts"][1])[1].lower() if len(case["opts"]) > 1 else ""))
    sfx = os.path.splitext(case["src"])[1]
    return "+".join(sorted(parts)) + f"|src{sfx}|dir={'y' if case['srcdir'] else 'n'}"


def bk_ref_encode(s):
    out = bytearray()
    for ch in s:
        if ord(ch) < 0x7F:
            out.append(ord(ch))
        else:
            b = ch.encode("koi8_r")
            if b[0] < 0xC0:
                raise ValueError(ch)
            out += b
    return bytes(out)


def check_container(fmt, blob, base, img, name16, viol, label):
    from vlib import containers_ref as cr
    try:
        if fmt == "raw":
            if blob != img:
                viol(f"{label}: raw output differs from the image ({len(blob)} vs {len(img)} bytes)")
        elif fmt == "bin":
            b, body = cr.read_bin(blob)
            if b != base or body != img:
                viol(f"{label}: bin decodes to base {b:#o}, {len(body)} bytes; expected base {base:#o}, {len(img)} bytes" +
                     ("" if body == img else " (content differs)"))
        else:
            d = cr.read_tape(blob, turbo=(fmt == "bk_turbo_wav"))
            if d["base"] != base or d["length"] != len(img) or d["data"] != img:
                viol(f"{label}: tape decodes to base {d['base']:#o} length {d['length']}; expected base {base:#o} length {len(img)}"
                     + ("" if d["data"] == img else " (data differs)"))
            if d["name"] != name16:
                viol(f"{label}: tape header name {d['name']!r}, expected {name16!r}")
            want = cr.bk_checksum(img)
            if d["checksum"] != want:
                viol(f"{label}: tape checksum {d['checksum']:#x}, BK end-around-carry sum of the data is {want:#x} (byte sum {sum(img)})")
    except cr.FormatError as ex:
        viol(f"{label}: container is not well-formed: {ex}")


def run_case(case, cnt=None):
    if cnt is None:
        cnt = {k: 0 for k in DECIDING_COUNTERS + ["plain_cli_cross_checks"]}
    out = []

    def viol(what):
        out.append({"what": what, "case": case})

    if case["kind"] == "fmt":
        from vlib import asm  # noqa: F401
        from pdpy11 import formats
        base, img, name = case["base"], bytes.fromhex(case["image"]), bytes.fromhex(case["name"])
        for fmt in ("bin", "raw", "bk_wav", "bk_turbo_wav"):
            fn = formats.file_formats.get(fmt)
            if fn is None:
                viol(f"format {fmt} is not registered")
                continue
            try:
                blob = fn(base, img, name) if fmt.endswith("wav") else fn(base, img)
            except Exception as ex:  # pylint: disable=broad-except
                viol(f"file_formats[{fmt}] raised {type(ex).__name__}: {ex} (base {base:#o}, {len(img)} bytes)")
                continue
            cnt["format_calls_observed"] += 1
            check_container(fmt, blob, base, img, name, viol, f"file_formats[{fmt}]")
            cnt["containers_decoded"] += 1
        return out

    # ---- CLI leg
    import shutil
    import tempfile
    from vlib import cli
    import pdpy11._cli  # noqa: F401  pylint: disable=unused-import
    root = tempfile.mkdtemp(prefix="c13-", dir=os.getcwd())
    scratch = tempfile.mkdtemp(prefix="c13s-", dir=os.getcwd())
    try:
        cwd = os.path.join(root, "w")
        absdir = os.path.join(root, "absdir")
        os.makedirs(cwd)
        os.makedirs(absdir)
        srcdir = os.path.join(cwd, case["srcdir"])
        os.makedirs(srcdir, exist_ok=True)
        os.makedirs(os.path.join(srcdir, "out"), exist_ok=True)
        os.makedirs(os.path.join(cwd, "out"), exist_ok=True)
        img, base = bytes.fromhex(case["image"]), case["base"]
        q = case["quote"]
        if q == "/" and any("/" in (x or "") for d in case["directives"] for x in d[1:]) or (q == "/" and any(d[1] and "@ABS@" in d[1] for d in case["directives"])):
            q = '"'
        n_req = len(case["directives"])
        dlines = []
        expected = {}     # abs path -> (fmt, name16)
        expect_fail = False
        # the directives may sit in an included file of another directory: their paths (and the default name) go with THAT file
        ddir = os.path.join(srcdir, case["incdir"]) if case.get("incdir") else srcdir
        dsrc = "part.mac" if case.get("incdir") else case["src"]
        for d, path, name in case["directives"]:
            # directive names are case-insensitive like every other name
            line = d if not case.get("dcase") else "".join(c.upper() if (case["dcase"] >> (i % 16)) & 1 else c for i, c in enumerate(d))
            if path is not None:
                p = path.replace("@ABS@", absdir)
                line += f" {q}{p}{q}"
                target = os.path.normpath(p) if os.path.isabs(p) else os.path.normpath(os.path.join(ddir, p))
            else:
                stem = dsrc[:-4] if dsrc.lower().endswith(".mac") else dsrc
                target = os.path.join(ddir, stem + {"make_bin": ".bin", "make_bk0010_rom": ".bin", "make_raw": "", "make_wav": ".wav", "make_turbo_wav": ".wav"}[d])
            fmt = {"make_bin": "bin", "make_bk0010_rom": "bin", "make_raw": "raw", "make_wav": "bk_wav", "make_turbo_wav": "bk_turbo_wav"}[d]
            name16 = None
            if fmt.endswith("wav"):
                if name is not None:
                    line += f", {q}{name}{q}"
                    tape = name
                else:
                    tape = os.path.basename(target)
                    if tape.lower().endswith(".wav"):
                        tape = tape[:-4]
                cs = case.get("charset")
                try:
                    enc = bk_ref_encode(tape) if not cs else tape.encode(cs)
                except (UnicodeEncodeError, ValueError):
                    enc = b"?" * 17                   # not encodable in the selected charset: an error, like a name that is too long
                if len(enc) > 16:
                    expect_fail = True
                name16 = enc[:16].ljust(16, b" ")
            dlines.append(line)
            expected[target] = (fmt, name16)
        body = [f".link {base:o}"]
        for i in range(0, len(img), 16):
            body.append(".byte " + ", ".join(f"{b}." for b in img[i:i + 16]))
        body2 = []
        if case.get("second"):
            # the image comes from two linked sources; every default path is derived from the FIRST one
            k2 = 1 + (len(body) - 1) // 2
            body, body2 = body[:k2], body[k2:]
        if case.get("incdir") and dlines:
            os.makedirs(os.path.join(ddir, "out"), exist_ok=True)
            with open(os.path.join(ddir, "part.mac"), "w", encoding="utf-8") as f:
                f.write("\n".join(dlines) + "\n")
            dlines = [f'.include "{case["incdir"]}/part.mac"']
        if case["where"] == "top":
            lines = dlines + body
        elif case["where"] == "bottom":
            lines = body + dlines
        else:
            k = len(body) // 2
            lines = body[:k] + dlines + body[k:]
        src_path = os.path.join(srcdir, case["src"])
        if case.get("symlink"):
            # the source named on the command line is a symbolic link to a file kept elsewhere: paths and default names go by the name given
            store = os.path.join(root, "store")
            os.makedirs(store, exist_ok=True)
            real = os.path.join(store, "kept-" + case["src"])
            with open(real, "w", encoding="utf-8") as f:
                f.write("\n".join(lines) + "\n")
            os.symlink(real, src_path)
            cnt["symlinked_sources"] = cnt.get("symlinked_sources", 0) + 1
        else:
            with open(src_path, "w", encoding="utf-8") as f:
                f.write("\n".join(lines) + "\n")
        argv = [os.path.join(case["srcdir"], case["src"])]
        if case.get("second"):
            second = os.path.join(cwd, case["second"])
            os.makedirs(os.path.dirname(second), exist_ok=True)
            dlines2 = []
            if case.get("mirror") and not case.get("incdir"):
                # the second source asks for outputs of its own, with directives of the same shape (same format, same place in the file,
                # names of the same length) as the first one's: each is a request of its own, relative to ITS file
                sdir = os.path.dirname(second)
                for d, path, name in case["directives"]:
                    if path is None or ".." in path:
                        continue
                    head, _, fn = path.rpartition("/")
                    fn2 = ("Z" if fn[0] != "Z" else "Y") + fn[1:]
                    p2 = ((head + "/") if head else "") + fn2
                    p2 = p2.replace("@ABS@", absdir)
                    line = d if not case.get("dcase") else "".join(c.upper() if (case["dcase"] >> (i % 16)) & 1 else c for i, c in enumerate(d))
                    line += f" {q}{p2}{q}"
                    target = os.path.normpath(p2) if os.path.isabs(p2) else os.path.normpath(os.path.join(sdir, p2))
                    fmt = {"make_bin": "bin", "make_bk0010_rom": "bin", "make_raw": "raw", "make_wav": "bk_wav", "make_turbo_wav": "bk_turbo_wav"}[d]
                    name16 = None
                    if fmt.endswith("wav"):
                        if name is not None:
                            line += f", {q}{name}{q}"
                            tape = name
                        else:
                            tape = os.path.basename(target)
                            if tape.lower().endswith(".wav"):
                                tape = tape[:-4]
                        cs = case.get("charset")
                        try:
                            enc = bk_ref_encode(tape) if not cs else tape.encode(cs)
                        except (UnicodeEncodeError, ValueError):
                            enc = b"?" * 17
                        name16 = enc[:16].ljust(16, b" ")
                    os.makedirs(os.path.dirname(target), exist_ok=True)
                    dlines2.append(line)
                    expected[target] = (fmt, name16)
                    n_req += 1
                cnt["mirrored_directives"] = cnt.get("mirrored_directives", 0) + len(dlines2)
            with open(second, "w", encoding="utf-8") as f:
                f.write("\n".join((dlines2 + body2) if case["where"] == "top" else (body2 + dlines2)) + "\n")
            argv.append(case["second"])
        opts = [o.replace("@ABS@", absdir) for o in case["opts"]]
        argv += opts
        if case.get("charset"):
            argv += ["--charset", case["charset"]]
        if case.get("lst"):
            argv += ["--lst"]
        if opts[:1] == ["-o"]:
            target = opts[1] if os.path.isabs(opts[1]) else os.path.normpath(os.path.join(cwd, opts[1]))
            expected[target] = ("bin" if opts[1].lower().endswith(".bin") else "raw", None)
            n_req += 1
        elif opts[:1] == ["--implicit-bin"] and not case["directives"]:
            stem = src_path[:-4] if src_path.lower().endswith(".mac") else src_path
            expected[stem + ".bin"] = ("bin", None)
            n_req += 1
        # duplicate targets (two directives naming one path) make the expectation ambiguous: last writer wins; skip content check then
        targets = [t for t in expected]
        if case.get("stale"):
            # an older, longer file already sits at every target: the new container replaces it, nothing of the old one stays
            for t in targets:
                os.makedirs(os.path.dirname(t), exist_ok=True)
                with open(t, "wb") as f:
                    f.write(b"STALE OLD OUTPUT " * 40000)
        r = cli.run_cli(argv, cwd, scratch, timeout=120)
        cnt["cli_runs"] += 1
        if r["stall"]:
            return out
        if case.get("rerun") and r["exit"] == 0:
            # the outputs of an earlier build are in place, same names, same sizes, same beginnings, something else further on (an older
            # version of the program): the new build replaces every one of them with exactly what it would write into an empty directory
            damaged = 0
            for t in targets:
                if os.path.isfile(t) and os.path.getsize(t) > 16:
                    with open(t, "r+b") as fh:
                        size = os.path.getsize(t)
                        for posn in {size - 1, size - 7, size // 2, min(size - 1, 5000), min(size - 1, 70000)}:
                            fh.seek(posn)
                            b = fh.read(1)
                            fh.seek(posn)
                            fh.write(bytes([b[0] ^ 0x55]))
                        if size > 6000:
                            # (a stretch of flat samples in the middle of a tape image: some bits are simply not there)
                            fh.seek(max(4200, size // 4))
                            fh.write(b"\x80" * (size // 2))
                    damaged += 1
            if damaged:
                r = cli.run_cli(argv, cwd, scratch, timeout=120)
                cnt["rebuilds_over_older_outputs"] = cnt.get("rebuilds_over_older_outputs", 0) + 1
                if r["stall"]:
                    return out
                r["diff"]["modified"] = list(r["diff"].get("modified", [])) + [os.path.relpath(t, cwd) for t in targets if t.startswith(cwd)]
        created = set()
        for rel in r["diff"]["created"] + r["diff"]["modified"]:
            if not rel.endswith("/"):
                created.add(os.path.normpath(os.path.join(cwd, rel)))
        abs_after = {os.path.join(absdir, f) for f in os.listdir(absdir)}
        created |= abs_after
        label = f"argv={argv} directives={dlines}"
        if expect_fail:
            if r["exit"] == 0:
                viol(f"{label}: a tape name longer than 16 bytes was accepted (exit 0)")
            return out
        if r["exit"] != 0:
            viol(f"{label}: valid program with valid output selectors failed: exit {r['exit']}, events {r['events'][:3]}, stderr {r['stderr'][-300:]!r}")
            return out
        want = set(targets)
        if case.get("lst"):
            # (where the listing goes is C19's matter; here: it is not the output)
            for t in targets:
                created.discard(t + ".lst")
            cnt["outputs_named_lst_with_listing"] = cnt.get("outputs_named_lst_with_listing", 0) + 1
        if opts[:1] == ["-o"] and "--implicit-bin" in opts:
            stem = src_path[:-4] if src_path.lower().endswith(".mac") else src_path
            created.discard(stem + ".bin") if (stem + ".bin") not in want else None
        if created != want:
            viol(f"{label}: files written {sorted(os.path.relpath(p, root) for p in created)} != files requested {sorted(os.path.relpath(p, root) for p in want)}")
        dup = len(set(targets)) != n_req
        for t in want & created:
            fmt, name16 = expected[t]
            if dup:
                continue
            with open(t, "rb") as f:
                blob = f.read()
            check_container(fmt, blob, base, img, name16, viol, f"{label} file {os.path.relpath(t, root)}")
            cnt["cli_files_decoded"] += 1
        if case.get("plain"):
            # the same run without any shim: status and file set must be identical
            for t in created:
                if os.path.isfile(t):
                    os.unlink(t)
            p = cli.run_cli_plain(argv, cwd, timeout=120)
            created2 = {os.path.normpath(os.path.join(cwd, rel)) for rel in p["diff"].get("created", []) + p["diff"].get("modified", []) if not rel.endswith("/")}
            created2 |= {os.path.join(absdir, f) for f in os.listdir(absdir)}
            cnt["plain_cli_cross_checks"] += 1
            if case.get("lst"):
                created2 -= {t + ".lst" for t in targets}
            if not p["stall"] and (p["exit"] != r["exit"] or created2 != created):
                viol(f"{label}: shim and plain 'python -m pdpy11' disagree: exit {r['exit']} vs {p['exit']}, files {sorted(created)} vs {sorted(created2)}")
        return out
    finally:
        shutil.rmtree(root, ignore_errors=True)
        shutil.rmtree(scratch, ignore_errors=True)
