"""C02  Addresses the program sees equal where its bytes land.

Monitors:
 (1) invariant over the H1 hook trace, no model needed, on arbitrary real programs (generated + the 21-program practice corpus):
     for every traced statement (block, address it was given, chunk it produced): image[addr-base : +len] == chunk; the entries
     of one block are consecutive (next address = address + size); a label's value is the address of the next emitting entry of
     its block (or the block's end); the file-level blocks tile the image; committed sizes equal actual sizes.
 (2) black-box leg: generated programs with probe tables ('.word label', '.word .') compared with the reference layout.
 (3) corpus golden leg: the assembled image equals the committed out.bin.
"""
import glob
import os
import random

PROPERTY = "C02"
LEVEL = "exploration"
RULE = ("generated programs over every statement kind that emits or moves the counter (instructions, .byte/.word/.dword, strings, .rad50, "
        ".blkb/.blkw with counts defined later, .even/.odd/.align, '. =' skips, .repeat nested <= 2 with lazy counts, insert_file 0-300 bytes, "
        ".include, 1-3 linked files, word lists), even and odd link bases, plus all 21 practice programs; distinct = distinct programs with "
        ">= 1 lazily sized statement and >= 1 label after it")
ASSUMPTIONS = ["only runs without error diagnostics are judged by the trace invariant (the statement says so)",
               "'. =' is generated only as the first statement (base) or after the base is set (skip); .link inside an included file is not generated",
               "a lazily counted .repeat whose body mentions a label defined after it is the listed finding 'definitional-cycle' (C08) and is not generated here"]
DECIDING_COUNTERS = ["programs", "trace_entries_checked", "labels_checked", "reference_comparisons", "corpus_programs"]
MIN_DISTINCT = 50

CONTAINERS = (".repeat", ".include")


def plan(tier, seed):
    n = 16 if tier == "quick" else 48
    total = 3000 if tier == "quick" else 200000
    return [{"part": i, "parts": n, "seed": seed, "tier": tier, "count": total // n} for i in range(n)]


def trace_invariants(o, messages, cnt, sized_check=True):
    """The model-free invariant over the hook trace of a successful run."""
    from pdpy11.deferred import wait, SizedDeferred
    base, image = o.base, o.code
    blocks = {}
    order = []
    for t in o.trace:
        if t[0] == "block":
            blocks[t[4]] = {"start": wait(t[3]), "entries": [], "state": t[1], "end": None}
            order.append(t[4])
        else:
            blocks[t[5]]["entries"].append(t)
    for bid in order:
        blk = blocks[bid]
        pos = blk["start"]
        for t in blk["entries"]:
            kind, st, addr, chunk = t[0], t[2], t[3], t[4]
            a = wait(addr)
            if kind == "label":
                cnt["labels_checked"] += 1
                if a != pos:
                    messages.append(f"label '{st.name}' was given {a:#o}, the bytes before it in its block end at {pos:#o}")
                continue
            b = wait(chunk) if chunk is not None else b""
            cnt["trace_entries_checked"] += 1
            if a != pos:
                messages.append(f"statement '{st.text()[:40]}' was given address {a:#o}, the previous statements of its block end at {pos:#o}")
            lo = a - base
            if lo < 0 or lo + len(b) > len(image) or image[lo:lo + len(b)] != bytes(b):
                messages.append(f"statement '{st.text()[:40]}' at {a:#o}: the image holds {image[max(lo, 0):max(lo, 0) + len(b)].hex()[:40]} where it produced {bytes(b).hex()[:40]}")
            if sized_check and isinstance(chunk, SizedDeferred) and chunk.size != len(b):
                messages.append(f"statement '{st.text()[:40]}' committed size {chunk.size} but produced {len(b)} bytes")
            pos = a + len(b)
            if len(messages) > 6:
                return
        blk["end"] = pos
    cnt["blocks_checked"] = cnt.get("blocks_checked", 0) + len(order)
    if not order:
        return
    # the blocks of the linked files (same link base object as the first block) tile the image
    main = blocks[order[0]]["state"].get("link_base")
    linked = [blocks[b] for b in order if blocks[b]["state"].get("context") == "file" and blocks[b]["state"].get("link_base") is main]
    pos = base
    for blk in linked:
        if blk["start"] != pos:
            messages.append(f"a linked file starts at {blk['start']:#o}, the previous one ended at {pos:#o}")
        pos = blk["end"]
    if pos != base + len(image):
        messages.append(f"the linked files end at {pos:#o}, the image ends at {base + len(image):#o} (image length != sum of statement sizes)")


def symbol_values(o):
    from pdpy11.deferred import wait
    vals = {}
    for name, (tok, value) in o.compiler.symbols.items():
        vals[name] = wait(value)
    return vals


def gen_parity_program(rnd):
    """Byte-sized content, parity directives and labels; the base (even or odd) is stated first, in the middle or after everything, and part
    of the file may be an included file that starts at whatever parity the text before it ends on."""
    from vlib import apm
    stmts, labels = [], []
    for i in range(rnd.randrange(4, 14)):
        r = rnd.random()
        if r < 0.3:
            stmts.append(apm.data(".byte", *[apm.num(rnd.randrange(256)) for _ in range(rnd.randrange(1, 4))]))
        elif r < 0.5:
            stmts.append(apm.simple(rnd.choice([".even", ".odd"])))
        elif r < 0.6:
            stmts.append(apm.blk(".blkb", apm.num(rnd.randrange(0, 6))))
        elif r < 0.7:
            stmts.append(apm.string(".ascii", [("s", rnd.choice(["a", "ab", "abc", ""]))]))
        elif r < 0.76:
            stmts.append(apm.blk(".align", apm.num(rnd.choice([2, 4, 8, 3]))))
        elif r < 0.84:
            # word-sized content wherever it happens to fall: on an odd address the program has to be refused, not laid out somehow
            stmts.append(rnd.choice([apm.wordlist(apm.num(rnd.randrange(0x10000)), apm.num(rnd.randrange(0x10000))), apm.data(".word", apm.num(rnd.randrange(0x10000))),
                                     apm.data(".dword", apm.num(rnd.randrange(1 << 20))), apm.wordlist(apm.num(7))]))
        else:
            labels.append(f"par{i}")
            stmts.append(apm.label(labels[-1]))
    aux = {}
    if len(stmts) > 4 and rnd.random() < 0.4:
        a = rnd.randrange(1, len(stmts) - 1)
        b = rnd.randrange(a + 1, len(stmts) + 1)
        moved = [apm.label(s.labels[0][0], extern=True) if (s.k == "nop" and s.labels) else s for s in stmts[a:b]]
        aux["par7.mac"] = apm.SrcFile("par7.mac", moved)
        stmts[a:b] = [apm.include("par7.mac")]
    base = rnd.choice([0o1000, 0o1001, 0o2001, 0o40000, 0o40001, 1, 0])
    stmts += [apm.simple(".even"), apm.data(".word", *[("sym", l) for l in labels], ("dot",))]
    site = rnd.random()
    if site < 0.35:
        stmts.insert(0, apm.link(apm.num(base)))
    elif site < 0.75:
        stmts.append(apm.link(apm.num(base)))
    elif site < 0.9:
        stmts.insert(rnd.randrange(1, len(stmts)), apm.link(apm.num(base)))
    prog = apm.Program([apm.SrcFile("f0.mac", stmts)], aux=aux)
    try:
        apm.Ref(prog).run()
    except apm.RefError:
        return prog          # kept: the assembler has to refuse it as well
    except apm.Unmodelled:
        return None
    return prog


def gen_case(rnd, tier):
    from vlib import apm, tight
    if rnd.random() < 0.15:
        return gen_parity_program(rnd)
    opts = {"include": rnd.random() < 0.4, "insert": rnd.random() < 0.4, "odd_base": rnd.random() < 0.1}
    prog, ref, info = tight.gen_program(rnd, opts=opts, charset=rnd.choice(["bk", "bk", "utf-8", "koi8-r", "cp866"]))
    # probe tables: '.word <every label of the file>, .' appended to each linked file
    for f, ctx in zip(prog.files, info["ctxs"]):
        if ctx.labels and not any(s.k == "simple" and s.d == ".end" for s in f.stmts):
            f.stmts.append(apm.simple(".even"))
            f.stmts.append(apm.data(".word", *[("sym", l) for l in ctx.labels], ("dot",)))
    try:
        apm.Ref(prog).run()
    except (apm.RefError, apm.Unmodelled):
        return None
    return prog


def lazy_and_label_after(prog):
    """Non-triviality: some statement whose size is only known later (count through a symbol, .even/.odd/.align, '. =', .repeat,
    insert_file, .include) with an ordinary label after it."""
    for f in prog.files:
        seen_lazy = False
        for st in f.stmts:
            if st.labels and seen_lazy:
                return True
            if st.k in ("blk", "repeat", "dot", "insert", "include") or (st.k == "simple" and st.d in (".even", ".odd")):
                seen_lazy = True
    return False


def run_shard(spec):
    import shutil
    import tempfile
    from vlib import apm, refcheck
    rnd = random.Random(spec["seed"] * 67867967 + spec["part"])
    res = {"evaluations": 0, "distinct": [], "counters": {k: 0 for k in DECIDING_COUNTERS}, "sets": {"statement_kinds": [], "verdicts": []},
           "samples": [], "violations": [], "inconclusive": []}
    cnt = res["counters"]
    for k in ("expected_rejections", "rejections_confirmed", "unmodelled", "insn_statements_decoded", "data_bytes_compared", "corpus_golden_matches"):
        cnt[k] = 0
    root = tempfile.mkdtemp(prefix="c02-", dir=os.getcwd())
    try:
        for i in range(spec["count"]):
            prog = gen_case(rnd, spec["tier"])
            if prog is None:
                continue
            case = {"kind": "gen", "prog": apm.to_json(prog)}
            vs = run_case(case, cnt, root)
            res["violations"].extend(vs)
            res["evaluations"] += 1
            cnt["programs"] += 1
            if lazy_and_label_after(prog):
                res["distinct"].append(repr(apm.to_json(prog)["files"]))
            for f in prog.files:
                for st in f.stmts:
                    res["sets"]["statement_kinds"].append(st.k + ":" + str(getattr(st, "d", getattr(st, "name", ""))) if st.k in ("data", "str", "blk", "simple") else st.k)
            if i < 1:
                res["samples"].append({"files": {f.name: apm.r_file(f).splitlines()[:25] for f in prog.files}})
        # corpus leg, spread over the shards
        repo = os.environ.get("VERIF_REPO", "/repo")
        dirs = sorted(glob.glob(os.path.join(repo, "tests", "practice", "*", "")))
        for j, d in enumerate(dirs):
            if j % spec["parts"] != spec["part"]:
                continue
            case = {"kind": "corpus", "dir": os.path.relpath(d, repo)}
            vs = run_case(case, cnt, root)
            res["violations"].extend(vs)
            res["evaluations"] += 1
            cnt["corpus_programs"] += 1
            res["distinct"].append("corpus:" + case["dir"])
    finally:
        shutil.rmtree(root, ignore_errors=True)
    return res


def run_case(case, cnt=None, root=None):
    import shutil
    import tempfile
    from vlib import apm, asm, refcheck
    if cnt is None:
        cnt = {}
    for k in DECIDING_COUNTERS + ["expected_rejections", "rejections_confirmed", "unmodelled", "insn_statements_decoded", "data_bytes_compared", "corpus_golden_matches", "blocks_checked"]:
        cnt.setdefault(k, 0)
    out = []
    own_root = root is None
    if own_root:
        root = tempfile.mkdtemp(prefix="c02-", dir=os.getcwd())

    def viol(what):
        out.append({"what": what, "case": case})

    try:
        if case["kind"] == "corpus":
            repo = os.environ.get("VERIF_REPO", "/repo")
            src = os.path.join(repo, case["dir"], "code.mac")
            with open(src, encoding="utf-8") as f:
                text = f.read()
            o = asm.assemble([(src, text)], wall=300)
            if o.cls == "stall":
                return out
            if o.cls != "ok":
                viol(f"practice program {case['dir']} does not assemble: {o.brief()['diag'][:3]} {o.exc_type} {o.exc}")
                return out
            with open(os.path.join(repo, case["dir"], "out.bin"), "rb") as f:
                want = f.read()
            if want == o.code or (len(want) >= 4 and want[4:] == o.code and int.from_bytes(want[:2], "little") == o.base):
                cnt["corpus_golden_matches"] += 1
            else:
                viol(f"practice program {case['dir']}: image ({len(o.code)} bytes at {o.base:#o}) differs from the committed out.bin ({len(want)} bytes)")
            msgs = []
            trace_invariants(o, msgs, cnt)
            if not o.trace:
                cnt["trace_entries_checked"] += 0
            for m in msgs[:4]:
                viol(f"practice program {case['dir']}: {m}")
            return out
        prog = apm.from_json(case["prog"])
        texts = refcheck.render_all(prog)
        sub = tempfile.mkdtemp(prefix="p-", dir=root)
        files = refcheck.materialise(prog, texts, sub)
        o = asm.assemble(files, charset=prog.charset, wall=120)
        c = {}
        verdict, msgs = refcheck.compare(prog, o, c)
        for k, v in c.items():
            cnt[k] = cnt.get(k, 0) + v
        cnt["reference_comparisons"] += 1
        if verdict == "violation" and refcheck.known_cycle(o, texts):
            cnt["excluded_known_cycle"] = cnt.get("excluded_known_cycle", 0) + 1      # the listed C08 finding; not judged here
        elif verdict == "violation":
            out.append({"what": "reference layout: " + "; ".join(msgs), "case": case})
        elif verdict == "unmodelled":
            pass
        if o.cls == "ok" and not o.errors:
            tm = []
            trace_invariants(o, tm, cnt)
            for m in tm[:4]:
                viol("hook trace: " + m)
            # labels in the symbol table vs the trace
        shutil.rmtree(sub, ignore_errors=True)
        return out
    finally:
        if own_root:
            shutil.rmtree(root, ignore_errors=True)
