"""C17  Diagnostics point at the culprit.

Monitors: (universal) an invariant evaluated on every diagnostic of every run of this check - both ends of every span name the same
file, the file is one of the sources, 0 <= start <= end <= len(file), and the printed 'file:line:col' equals (line, column with a
tab = 4) recomputed independently from the character offset; (planted) for a fault planted at a known token in the main file, a
second linked file or an included file, with tabs, non-ASCII text and comments before it, the first reported position is the
planted token (or the enclosing statement's start for the kinds whose culprit is the statement).  A sample is also run through the
real CLI with --report-format=bare and its printed positions are parsed.
"""
import os
import random
import re

PROPERTY = "C17"
LEVEL = "fault_enumeration"
RULE = ("every one of the 63 fault kinds of the catalogue (vlib/faults.py) x planting position (any top-level line of the main file, a second "
        "linked file or an included file) x tab/space indentation x decoration lines with non-ASCII text and comments before the fault; the "
        "universal span invariant additionally on hostile inputs of grammar G; distinct = distinct (fault kind, file class, indentation class)")
ASSUMPTIONS = ["accepted culprit set per kind = {planted token, enclosing statement start} as listed in vlib/faults.py; kinds whose natural position is "
               "'where the missing token was expected' are checked for file/line sanity only",
               "one fault per program, so 'first reported position' is unambiguous"]
DECIDING_COUNTERS = ["planted_programs", "first_positions_checked", "spans_checked", "cli_lines_parsed"]
MIN_DISTINCT = 60


def plan(tier, seed):
    n = 16 if tier == "quick" else 48
    total = 6000 if tier == "quick" else 150000
    return [{"part": i, "parts": n, "seed": seed, "tier": tier, "count": total // n} for i in range(n)]


def check_spans(events, sources, cnt, viol):
    """Universal half."""
    from vlib import clicase
    for e in events:
        for sp in e["spans"]:
            cnt["spans_checked"] += 1
            if sp["file"] != sp["file_end"]:
                viol(f"{e['id']}: span starts in {sp['file']} and ends in {sp['file_end']}")
                continue
            if sp["file"] not in sources:
                viol(f"{e['id']}: span names '{sp['file']}', which is not one of the source files {sorted(sources)[:4]}")
                continue
            text = sources[sp["file"]]
            if not (0 <= sp["start"] <= sp["end"] <= len(text)):
                viol(f"{e['id']}: span {sp['start']}..{sp['end']} is not inside the file of {len(text)} characters (or start > end)")
                continue
            for pos, printed in ((sp["start"], sp["rs"]), (sp["end"], sp["re"])):
                m = re.match(r"^(.*):(\d+):(\d+)$", printed)
                if not m or m.group(1) != sp["file"]:
                    viol(f"{e['id']}: printed position {printed!r} does not name the span's file")
                    continue
                want = clicase.line_col(text, pos)
                if (int(m.group(2)), int(m.group(3))) != want:
                    viol(f"{e['id']}: printed position {printed.split('/')[-1]} but offset {pos} is line {want[0]} column {want[1]} (tab = 4)")


def run_shard(spec):
    import shutil
    import tempfile
    from vlib import faults
    rnd = random.Random(spec["seed"] * 879190747 + spec["part"])
    res = {"evaluations": 0, "distinct": [], "counters": {k: 0 for k in DECIDING_COUNTERS}, "sets": {"kinds": [], "idents": []},
           "samples": [], "violations": [], "inconclusive": []}
    cnt = res["counters"]
    cnt["hostile_inputs"] = 0
    root = tempfile.mkdtemp(prefix="c17-", dir=os.getcwd())
    try:
        kinds = list(faults.KINDS)
        for i in range(spec["count"]):
            if i % 5 == 4:
                case = {"kind": "hostile", "seed": rnd.randrange(1 << 30)}
            else:
                kind = kinds[(i + spec["part"] * 7) % len(kinds)]
                case = {"kind": "plant", "fault": kind, "seed": rnd.randrange(1 << 30), "cli": (i % 40 == 0)}
            vs, tag = run_case(case, cnt, root)
            res["violations"].extend(vs)
            res["evaluations"] += 1
            if tag:
                res["distinct"].append(tag)
                res["sets"]["kinds"].append(tag.split("|")[0])
            if i < 2 and case["kind"] == "plant":
                res["samples"].append(case)
    finally:
        shutil.rmtree(root, ignore_errors=True)
    return res


def run_case(case, cnt=None, root=None):
    import shutil
    import tempfile
    from vlib import asm, clicase, faults, gen
    if cnt is None:
        cnt = {}
    for k in DECIDING_COUNTERS + ["hostile_inputs"]:
        cnt.setdefault(k, 0)
    own = root is None
    if own:
        root = tempfile.mkdtemp(prefix="c17-", dir=os.getcwd())
    out = []
    tag = None

    def viol(what):
        out.append({"what": what, "case": case})

    rnd = random.Random(case["seed"])
    sub = tempfile.mkdtemp(prefix="p-", dir=root)
    try:
        if case["kind"] == "hostile":
            text, how = gen.hostile_text(rnd)
            name = os.path.join(sub, "h.mac")
            o = asm.assemble([(name, text)], budget=1_500_000, wall=30)
            cnt["hostile_inputs"] += 1
            if o.cls in ("ok", "fail"):
                check_spans(o.events, {name: text}, cnt, lambda m: viol(f"hostile input ({how}): {m}; input starts {text[:150]!r}"))
            return (out, None) if not own else out
        host = clicase.build_host(rnd, nstmt=rnd.randrange(2, 12))
        indent = rnd.choice(["\t", "    ", "", "\t\t", " \t"])
        f = faults.render(case["fault"], indent)
        names = host["linked"] + host["included"]
        if case["fault"] in ("second-link", "backward-skip-late-target"):
            names = host["linked"]
        where = rnd.choice(names)
        if rnd.random() < 0.12 and case["fault"] not in ("second-link", "backward-skip-late-target"):
            # two included files with the SAME name in different directories, each included by a file of its own directory with the
            # same operand text; the fault sits in the one that is included later
            host["texts"]["same7.mac"] = ["\tnop", "\t.even", "\t.word 1"]
            host["texts"]["drv/same7.mac"] = ["\tclr r0", "\t.even", "\t.word 2, 3", "\t.even", "\tnop"]
            host["texts"]["drv/outer7.mac"] = ["\tnop", "\t.include \"same7.mac\"", "\t.even"]
            main_lines = host["texts"][host["linked"][0]]
            slots = clicase.top_level_slots(main_lines)
            a = rnd.choice(slots)
            main_lines[a:a] = ["\t.include \"same7.mac\"", "\t.even"]
            b = rnd.choice([x for x in clicase.top_level_slots(main_lines) if x > a + 1] or [len(main_lines)])
            main_lines[b:b] = ["\t.include \"drv/outer7.mac\"", "\t.even"]
            host["included"] += ["same7.mac", "drv/same7.mac", "drv/outer7.mac"]
            where = "drv/same7.mac"
        if len(host["linked"]) >= 2 and rnd.random() < 0.1 and "drv/same7.mac" not in host["texts"]:
            # a diagnostic with positions in TWO files: a name exported by the first linked file and again, further down the link
            # order, by another one; the culprit (and the first position reported) is the second declaration
            first_lines = host["texts"][host["linked"][0]]
            a = rnd.choice(clicase.top_level_slots(first_lines))
            first_lines[a:a] = [rnd.choice(["dupx9:: .word 0", "dupx9 == 5", "\tdupx9::\tnop"]), "\t.even"]
            f = {"kind": "dup-export-two-files", "lines": [indent + "dupx9:: nop"], "ident": "duplicate-symbol", "sev": "error",
                 "T": (0, len(indent)), "S": (0, len(indent)), "accept": ("T",)}
            where = host["linked"][-1]
            case = dict(case, cli=True)
        rec = clicase.plant(host, rnd, f, where=where)
        fileclass = "main" if where == host["linked"][0] else ("linked" if where in host["linked"] else "included")
        tag = f"{case['fault']}|{fileclass}|{'tab' if chr(9) in indent else ('space' if indent else 'none')}"
        clicase.write_host(host, sub)
        if host["included"] and rnd.random() < 0.3:
            # included files (read from disk by the assembler itself) with CR LF or bare CR line ends: lines are lines
            eol = rnd.choice(["\r\n", "\r"])
            for n in host["included"]:
                with open(os.path.join(sub, n), "w", encoding="utf-8", newline="") as fh:
                    fh.write(eol.join(host["texts"][n]) + eol)
            cnt["included_files_with_cr_line_ends"] = cnt.get("included_files_with_cr_line_ends", 0) + 1
        files = [(os.path.join(sub, n), "\n".join(host["texts"][n]) + "\n") for n in host["linked"]]
        sources = {os.path.join(sub, n): "\n".join(l) + "\n" for n, l in host["texts"].items()}
        if rnd.random() < 0.2:
            # earlier in this process: other texts under the same names and of the same lengths, with their line breaks elsewhere
            shadow = []
            for n, tx in files:
                nl = [i for i, c in enumerate(tx[:-1]) if c == "\n"]
                for i in rnd.sample(nl, min(len(nl), rnd.randrange(1, 4))):
                    tx = tx[:i] + rnd.choice([";", " "]) + tx[i + 1:]
                shadow.append((n, tx))
            asm.assemble(shadow, wall=60)
            cnt["same_name_same_length_predecessors"] = cnt.get("same_name_same_length_predecessors", 0) + 1
        o = asm.assemble(files, wall=120)
        cnt["planted_programs"] += 1
        if o.cls == "stall":
            return (out, tag) if not own else out
        label = f"fault '{case['fault']}' planted in {fileclass} file {where} line {rec['line']}: {f['lines']}"
        if o.cls != "fail":
            viol(f"{label}: outcome {o.cls} {o.exc_type or ''} {o.exc or ''}, expected a failed build")
            return (out, tag) if not own else out
        check_spans(o.events, sources, cnt, lambda m: viol(f"{label}: {m}"))
        errs = o.errors
        if f["ident"] and f["ident"] not in [e["id"] for e in errs]:
            viol(f"{label}: expected diagnostic '{f['ident']}', reported {[e['id'] for e in errs][:4]}")
        first = errs[0] if errs else None
        if first and first["spans"]:
            sp = first["spans"][0]
            want_file = os.path.join(sub, where)
            if sp["file"] != want_file:
                viol(f"{label}: first diagnostic {first['id']} names file {os.path.basename(sp['file'] or '?')}, the fault is in {where}")
            else:
                got = clicase.line_col(sources[want_file], sp["start"])
                want = clicase.expected_positions(rec)
                cnt["first_positions_checked"] += 1
                if f["accept"] == ():
                    pass
                elif want is None:
                    lo, hi = rec["line"], rec["line"] + len(f["lines"])
                    if not lo <= got[0] <= hi:
                        viol(f"{label}: first diagnostic {first['id']} at line {got[0]}, the fault occupies lines {lo}-{hi}")
                elif got not in want:
                    viol(f"{label}: first diagnostic {first['id']} at line {got[0]} column {got[1]}, the culprit is at {sorted(want)}")
        if case.get("cli"):
            from vlib import cli
            import pdpy11._cli  # noqa: F401  pylint: disable=unused-import
            scratch = tempfile.mkdtemp(prefix="s-", dir=root)
            r = cli.run_cli(host["linked"] + ["--report-format", "bare", "-Wall"], sub, scratch, timeout=120)
            shutil.rmtree(scratch, ignore_errors=True)
            if not r["stall"]:
                printed = []
                for line in r["stdout"].decode("utf-8", "replace").splitlines():
                    m = re.match(r"^(.*?):(\d+):(\d+): (Error|Warning): ", line)
                    if m:
                        printed.append((m.group(1), int(m.group(2)), int(m.group(3)), m.group(4)))
                        cnt["cli_lines_parsed"] += 1
                # every logged event's first position must be printed, in order of emission, for its first span
                logged = [(e[2], e[4]) for e in r["events"] if e[0] != "warning" or True]
                firsts = [p for p in printed]
                for fn, ln, col, sevtxt in firsts:
                    if fn not in sources:
                        viol(f"{label}: CLI printed a position in '{fn}', not a source file")
                        break
                    lines = sources[fn].split("\n")
                    if not (1 <= ln <= len(lines)):
                        viol(f"{label}: CLI printed line {ln} of {fn}, the file has {len(lines)} lines")
                        break
                if r["exit"] != 1:
                    viol(f"{label}: CLI exit status {r['exit']} for a program with an error")
                errs_printed = [p for p in printed if p[3] == "Error"]
                if first and first["spans"] and errs_printed:
                    sp = first["spans"][0]
                    got = clicase.line_col(sources[sp["file"]], sp["start"]) if sp["file"] in sources else None
                    if got and (errs_printed[0][0], errs_printed[0][1], errs_printed[0][2]) != (sp["file"], got[0], got[1]):
                        viol(f"{label}: CLI prints the first error at {errs_printed[0][:3]}, the API span says {(sp['file'], got)}")
        return (out, tag) if not own else out
    finally:
        shutil.rmtree(sub, ignore_errors=True)
        if own:
            shutil.rmtree(root, ignore_errors=True)
