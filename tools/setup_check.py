#!/venv/bin/python
"""MANIFEST.setup_cmd: nothing to build (stdlib only); verify the prerequisites are present."""
import os
import subprocess
import sys

repo = os.environ.get("VERIF_REPO", "/repo")
env = dict(os.environ, PYTHONPATH=repo, PDPY11_VERIF="1", PYTHONDONTWRITEBYTECODE="1")
code = ("import sys, pdpy11, pdpy11.compiler as c; assert sys.version_info >= (3, 12), sys.version; "
        "assert hasattr(sys, 'monitoring'); assert c._VERIF is True, 'verification hook missing'; print('setup ok', pdpy11.__file__)")
r = subprocess.run(["/venv/bin/python", "-B", "-c", code], env=env)
sys.exit(r.returncode)
