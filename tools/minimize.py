#!/venv/bin/python
"""Delta-debug a C08-style replay (or a text file) to a small witness with the same outcome signature.
usage: PYTHONPATH=/repo:/verif python tools/minimize.py replay.json"""
import json
import os
import sys

sys.path.insert(0, os.path.dirname(os.path.dirname(os.path.abspath(__file__))))
from vlib import asm  # noqa: E402


ROOT = "/tmp/pdpy11-min"


def setup_root():
    from checks import C08
    os.makedirs(ROOT, exist_ok=True)
    for name, text in C08.INC_FILES.items():
        open(os.path.join(ROOT, name), "w").write(text)
    open(os.path.join(ROOT, "blob.bin"), "wb").write(bytes(range(37)))


def sig(text, name=ROOT + "/f0.mac"):
    o = asm.assemble([(name, text)], budget=3_000_000, wall=20)
    if o.cls == "internal":
        return f"internal:{o.exc_type}@{o.exc_where}"
    if o.cls == "nonterm":
        return "nonterm"
    if o.cls == "fail" and not o.errors:
        return "silent-fail"
    return o.cls


def ddmin(items, test):
    n = 2
    while len(items) >= 2:
        chunk = max(1, len(items) // n)
        reduced = False
        for i in range(0, len(items), chunk):
            cand = items[:i] + items[i + chunk:]
            if cand and test(cand):
                items = cand
                n = max(n - 1, 2)
                reduced = True
                break
        if not reduced:
            if chunk == 1:
                break
            n = min(n * 2, len(items))
    return items


def main():
    path = sys.argv[1]
    setup_root()
    if path.endswith(".json"):
        rep = json.load(open(path))
        text = "\n".join(t for _, t in rep["case"]["files"])
    else:
        text = open(path).read()
    want = sig(text)
    print("signature:", want)
    lines = ddmin(text.split("\n"), lambda ls: sig("\n".join(ls)) == want)
    text = "\n".join(lines)
    from vlib.gen import tokenise
    toks = ddmin(tokenise(text), lambda ts: sig("".join(ts)) == want)
    print("minimal witness:")
    print("".join(toks))
    import shutil
    shutil.rmtree(ROOT, ignore_errors=True)


if __name__ == "__main__":
    main()
