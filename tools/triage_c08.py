#!/venv/bin/python
"""Find and minimise one witness per distinct C08 crash site. usage: triage_c08.py [n] [seed]"""
import os, sys, random, tempfile, shutil
sys.path.insert(0, os.path.dirname(os.path.dirname(os.path.abspath(__file__))))
from vlib import asm, gen
from checks import C08
from tools.minimize import sig, ddmin
n = int(sys.argv[1]) if len(sys.argv) > 1 else 3000
rnd = random.Random(int(sys.argv[2]) if len(sys.argv) > 2 else 1)
root = tempfile.mkdtemp(prefix="tri-")
for name, text in C08.INC_FILES.items():
    open(os.path.join(root, name), "w").write(text)
open(os.path.join(root, "blob.bin"), "wb").write(bytes(range(37)))
seen = {}
for i in range(n):
    text, how = gen.hostile_text(rnd, files=("inc1.mac", "inc2.mac", "inc3.mac", "nosuch.mac"))
    text = "\n".join(text.split("\n")[:60])
    s = sig(text, os.path.join(root, "f0.mac"))
    if s in ("ok", "fail", "stall") or s in seen:
        continue
    seen[s] = text
    name = os.path.join(root, "f0.mac")
    lines = ddmin(text.split("\n"), lambda ls: sig("\n".join(ls), name) == s)
    toks = ddmin(gen.tokenise("\n".join(lines)), lambda ts: sig("".join(ts), name) == s)
    print("==", s, "known-key:", C08.known_key(["".join(toks)], asm.assemble([(name, "".join(toks))], budget=3_000_000, wall=20)))
    print("".join(toks))
    sys.stdout.flush()
shutil.rmtree(root)
