#!/venv/bin/python
"""Assemble the 21 practice programs with the tree under VERIF_REPO and compare with the committed out.bin."""
import glob, os, sys
repo = os.environ.get("VERIF_REPO", "/repo")
sys.path.insert(0, repo)
sys.path.insert(0, os.path.dirname(os.path.dirname(os.path.abspath(__file__))))
from vlib import asm
ok = 0
for d in sorted(glob.glob(os.path.join(repo, "tests/practice/*/"))):
    src = os.path.join(d, "code.mac")
    o = asm.assemble([(src, open(src, encoding="utf-8").read())])
    want = open(os.path.join(d, "out.bin"), "rb").read()
    good = o.cls == "ok" and (want == o.code or want[4:] == o.code)
    ok += good
    if not good:
        print("MISMATCH", d, o.cls, o.exc_type, o.exc, [e["id"] for e in o.errors[:3]])
print(f"{ok}/21 match")
sys.exit(0 if ok == 21 else 1)
