#!/venv/bin/python
"""Fill 'what' / 'needs_to_manifest' of seeded/<id>/meta.json from the table below and print the DESIGN.md table."""
import json, os, sys
SEEDS = {
 "C01-1": ("one state dict shared by all operands of an instruction: a deferred first PC-relative operand sees the last operand's rel_address", "two-operand instruction whose FIRST operand is 'label'/'@label' with the label defined later"),
 "C01-2": ("branch upper bound 2**bitness instead of 2**bitness - 2", "a branch target exactly 256 bytes past PC+2: accepted and encoded as -128 words"),
 "C02-1": ("declared size of an operand-less '.word' becomes 1 (2 * len(operands) or 1)", "'.word' without operands while its address is not yet known (no .link before it) followed by byte-sized data"),
 "C02-2": ("start address of linked files not accumulated (addr = base + length of previous file)", "three or more linked files; labels and '.' of the third file are too low"),
 "C03-1": ("constant term of a substituted polynomial not scaled by the outer coefficient", "definitions after the use in reverse dependency order, chain depth >= 3, coefficient != 1"),
 "C03-2": ("infix '+' loses awaited=False: additions on unknown operands are forced recursively", "additive chain of ~100+ links defined after its use -> RecursionError, same chain before the use works"),
 "C04-1": ("SOB reach -128..0 instead of -126..0", "sob whose target is exactly 128 bytes back: count 64 truncated to 0"),
 "C04-2": ("relative-deferred displacement computed from emit_address - 4", "'@label' as second operand after a first operand with an extension word"),
 "C05-1": ("constant term not scaled in LinearPolynomial._wait", "symbol defined through a later label (f = g + 2) used with a coefficient other than +1"),
 "C05-2": ("^C masks its result to 16 bits", "^C result feeding /, %, +, * (sign or magnitude visible)"),
 "C06-1": (".align fill computed as -addr & (count - 1)", "non-power-of-two alignment modulus"),
 "C06-2": ("ASCII fast path in the bk codec", "DEL (\\x7f) in an otherwise all-ASCII quoted chunk under charset bk"),
 "C07-1": ("graphical renderer clamps the source window to len(lines) - 1", "graphical format + file without trailing newline + enabled warning on the last line -> KeyError, exit 1, no outputs"),
 "C07-2": ("generate_listing uses rpartition", "--lst and a global symbol with a dot in its name -> ValueError after outputs were written"),
 "C08-1": ("export table lookup with [] instead of .get()", "'.extern NAME' where NAME is never defined but referenced -> KeyError"),
 "C08-2": ("attribute rename missing one site disables the not-ready memo", "~18+ address-dependent statements before the base is known -> exponential time"),
 "C09-1": ("labels stored modulo 2**16 while the location counter is not", "program that crosses 0o177777 (e.g. .link 177770) with label differences / branches across the wrap"),
 "C09-2": ("inner coefficients not scaled when a polynomial variable is substituted", ".link not first, an equate defined before its label (body = start + 4) used as a subtrahend"),
 "C10-1": ("export table is a plain dict (case-sensitive)", "symbol exported in one file and referenced from another file in a different letter case"),
 "C10-2": ("minus sign ignored for ^X/^O/^B/^D numbers", "'-^X1F' style spelling of a negative number"),
 "C11-1": ("local scope counter incremented before use at ordinary labels", "two files (or an include after a label) reusing a local name across the boundary before the later file's first label"),
 "C11-2": ("duplicate-export check skipped while the first export is not yet defined", "'.extern NAME' before NAME's definition with an include exporting the same name in between"),
 "C12-1": ("constant term not scaled for aliases in the link expression", "labels reached through aliases assigned before the labels, coefficient != +1 (-q counts)"),
 "C12-2": ("'. =' skip of size 0 refused (length <= 0)", "'. = .' / '. = X' with X equal to the current counter"),
 "C13-1": ("checksum fold uses >= 0xffff", "image whose byte sum is a non-zero multiple of 65535"),
 "C13-2": ("'.mac' suffix test is case-sensitive for path-less make_bin/make_raw", "source named PROG.MAC: PROG.MAC.bin is written, make_raw overwrites the source"),
 "C14-1": ("table entry 0xB6 duplicated from 0xBA", "byte 0xB6 / character U+256B"),
 "C14-2": ("ASCII fast path for character literals under bk", "'\\x7f character literal assembles silently"),
 "C15-1": (".rad50 <n> bound val > 40", "<n> chunk equal to exactly 40"),
 "C15-2": ("^R character class built from TABLE[1:-1] (digit 9 missing)", "^R literal containing '9'"),
 "C16-1": ("only Instruction statements (not word lists) are copied per .repeat copy", "implicit word list with / % << >> on '.' inside a .repeat body, count >= 2"),
 "C16-2": ("address of later linked files not accumulated when a file's code is deferred", "three files, a deferred middle file, absolute references in the third"),
 "C17-1": ("column computed with expandtabs(4) (next tab stop instead of 4 columns)", "a tab after non-tab text on the fault's line, before the fault"),
 "C17-2": ("CLI parse loop uses the stale 'path' variable", "two or more input files and a fault in a file that is not the last one"),
 "C18-1": ("extern_symbols_mapping is a class attribute", "an earlier assembly in the same process exported the same name"),
 "C18-2": ("final symbol resolution iterates over set(self.symbols)", "two or more unused symbols producing diagnostics; PYTHONHASHSEED changes their order / the abort point"),
 "C19-1": ("listing sort key without the name tie-break", "two symbols with equal values defined in non-alphabetical order"),
 "C19-2": ("listing name via os.path.splitext", "output whose extension differs from its format name (-o prog.dat, make_raw \"img.bin\")"),
 # ---- round 2 (sub-agents told which mechanisms were already taken) ----
 "C01-3": ("hoist() result dropped for the right operand (token.rhs = hoist(token.rhs) -> hoist(token.rhs))", "index operand whose offset nests on the right: 'tbl+2*3(r1)', 'tbl!2+4(r2)': register lost, assembled PC-relative"),
 "C01-4": ("per-compiler cache of one-word instructions keyed by mnemonic + operand text", "inline field (trap/emt/spl/mark) written with '.' or a symbol, the same spelling again at another address or in another file"),
 "C02-3": (".repeat stride taken from the first copy only", "count >= 3 and a body whose size depends on the address it starts at (.even/.odd at the front of an odd-sized body)"),
 "C02-4": ("per-compiler cache of parsed include files", "the same file included twice with / % << >> on addresses or operand trees that are rewritten while encoding"),
 "C03-3": ("all_files_compiled set when the last file STARTS compiling", "name exported by an earlier file and defined privately in the last file after its use"),
 "C03-4": ("'. = X' skip closure reads the loop variables at evaluation time", "forward skip whose target is defined later and that is not the last statement of its block"),
 "C04-3": ("constant term of a substituted polynomial not scaled (LinearPolynomial._wait)", "PC-relative reference from inside an included file to a symbol of the includer, include not at offset 0, base not yet known"),
 "C04-4": ("local label of 'br 12+2' built from str(token.value) (octal reading) instead of the spelling", "compound branch operand whose first number is a local label >= 10"),
 "C05-3": ("operator-stack reduction uses 'if' instead of 'while'", "chains of three or more infix operators of falling precedence"),
 "C05-4": ("sign dropped on '-^X..' literals", "negative radix-prefixed literal inside an expression"),
 "C06-3": ("size hint for .ascii/.asciz counts characters", "utf-8 output + non-ASCII text + a <n> chunk whose value is defined further down + something parity-dependent after it"),
 "C06-4": ("string encoder cached per process without the charset", "two assemblies with different output charsets in one process"),
 "C07-3": ("FilterHandler memoises 'shown?' per identifier regardless of severity", "identifier used both as warning and as error (implicit-accumulator, excess-hash), hidden warning first: exit 1 with nothing printed"),
 "C07-4": ("final resolve-all-symbols loop removed, listing generation wrapped in handle_reports", "unused symbol with an undefined/forward-faulty definition + --lst + any output: error after the outputs were written (exit 0 without --lst)"),
 "C08-3": ("FilterHandler consults the -W table before the severity", "'-Wno-<identifier of an error>': exit 1 and no diagnostic at all"),
 "C08-4": ("block-not-taken guard no longer recognises directive names spelled without their dot", "'word 1, 2 { nop }': AttributeError on CodeBlock"),
 "C09-3": ("first copy of a .repeat body compiled from the parsed tokens (no deepcopy)", "indexed operand with an expression before the register inside .repeat, count >= 2"),
 "C09-4": ("binding to another file's exported constant is not postponed when its value is final", "exported constant in an earlier file, same-named label defined after its use in a later file"),
 "C10-3": ("implicit word lists no longer copied per .repeat copy", "implicit word list (not '.word') with / % << >> on '.' inside .repeat"),
 "C10-4": ("'if register is not None' -> 'if register' in the legacy '@rN' branch", "'@r0' (register 0 only) rejected while '(r0)' assembles"),
 "C11-3": ("local labels appended to the list '.extern all' walks", "'.extern all' AFTER local labels and the same local name in two scopes"),
 "C11-4": ("memo of resolved exports keyed by the bare name", "three units: exporter, a user without own definition linked first, and a shadowing file with a forward reference"),
 "C12-3": ("Promise.get_current_best_estimate substitutes the pending link deferred for the bare promise", "'.link' with a forward reference whose expression ADDS the label at offset 0 (K + start - end)"),
 "C12-4": ("literal operand of .link / leading '. =' taken as value % 2**16 without get_as_int", "'.link 200000', '. = -200000', '.link 1008'"),
 "C13-3": ("WAV encoding cached per format", "two outputs of the same WAV format with different tape names in one build"),
 "C13-4": ("'-o' ignored when '--implicit-bin' is also given", "'-o X --implicit-bin' without make_* directives"),
 "C14-3": ("str.translate + latin-1 fast path in the bk codec", "U+00A0-U+00FF in bk text: assembled as the latin-1 byte"),
 "C14-4": ("module-level encoded-text cache without the charset", "the same text assembled for another charset earlier in the process"),
 "C15-3": (".rad50 chunk conversion cached by chunk source text per compiler", "two <n> chunks with identical text and different values (file-private symbol, '.'-relative)"),
 "C15-4": ("one-character ^R literal padded with one space instead of two", "'^RA'"),
 "C16-3": (".repeat stride from the first copy only", "n >= 3 with an address-dependent body size"),
 "C16-4": ("include paths no longer normalised", "'.once' file included as 'x.mac' and './x.mac'"),
 "C17-3": ("line/column computed with str.splitlines", "FF, VT, FS/GS/RS, NEL, U+2028/2029 before the fault"),
 "C17-4": ("start of a nested prefix operator recorded as the start of the whole expression", "'#@x', '#%1', '@#5' where the diagnostic belongs to the inner operator"),
 "C18-3": ("try_compute.depth not restored after a non-NotReady exception", "an earlier assembly with '.blkb -1' style error in an unsized directive"),
 "C18-4": ("module-level cache of parsed include files", "an earlier assembly in the same process included the same path at another address"),
 "C19-3": ("listing value formatted with f'{value:06o}'", "negative constant with fewer than six octal digits"),
 "C19-4": ("mangled-name regex accepts a one-digit unit number only", "ten or more compilation units (files + includes)"),
}

# seeds the owning check missed at first, and what was added to the check (never to the property) until it caught them
STRENGTHENED = {
 "C01-2": "C01: branch/sob targets just outside the displacement field (whatever is accepted must decode to the written target)",
 "C02-1": "tight generator: data directives without operands",
 "C05-1": "tight/C05: aliases (constants whose value is an address, defined before the label) used with coefficients other than +1",
 "C07-1": "C07: files without a final newline, warning-only statement on the last line",
 "C07-2": "C07: dotted symbol names in hosts with --lst",
 "C09-1": "C09: PIC programs that cross 0o177777",
 "C09-2": "tight: aliases; .link not first",
 "C11-1": "C11: local labels referenced across unit boundaries (head of a later unit)",
 "C11-2": "C11: '.extern NAME' + include exporting NAME + own definition",
 "C12-1": "C12: alias coefficients in link expressions",
 "C14-2": "C14: DEL and other unencodable characters as character literals",
 "C16-1": "C16: implicit word lists with non-linear operators on '.' in repeat bodies",
 "C19-2": "C19: exact listing-name rule for every output extension",
 "C17-3": "C17/gen: FF, VT, FS, NEL, U+2028/2029 in decoration lines before the fault",
 "C17-4": "faults: nested prefix operator kinds (#@x, #%n, @#n in data, - #n)",
 "C19-4": "C19: 8-14 included units in a quarter of the programs",
 "C01-3": "C01: extension values spelled as right-nested expressions (k + b*c, k ! m+n, sym + a*(8>>3))",
 "C01-4": "C01: the same spelling of a location-dependent inline field (trap ./2&377) at many addresses",
 "C04-3": "C04: family (C) branches/relative operands across an include; base stated last or not at all",
 "C04-4": "C04: realisation 'localarith' (br 12+4 with numeric local labels >= 10)",
 "C06-3": "C06: <n> chunk codes given by constants defined further down",
 "C07-3": "C07: dual-severity identifiers, hidden warning first, -W selections that hide it",
 "C07-4": "faults: unused symbols with undefined / forward-faulty definitions (with --lst selectors)",
 "C08-3": "C08: random -W tables (incl. error identifiers switched off) in front of the real handlers; failure needs an error PAST the filter",
 "C08-4": "gen: directive names without their dot, code blocks after statements that take none",
 "C10-3": "tight: word lists with copy-dependent values in repeat bodies",
 "C15-3": "C15: the same .rad50 text in several contexts (file-private symbol, '.'-relative, late constant)",
 "C02-4": "tight: the same file included twice; non-linear operators on addresses",
 "C09-4": "tight: exported names shadowed by a later private definition in another file (label or constant, exported constant)",
 "C12-4": "C12: literal bases of every spelling, in and out of range, at the three sites",
 "C13-4": "C13: selector '-o X --implicit-bin'",
 "C14-4": "C14: the bk assembly preceded by the same text under another charset in the same process",
 "C16-4": "C16: '.once' file included under different spellings of its path",
 "C18-4": "C18: context-sensitive include file shared by history and probes at different addresses",
}
root = os.path.join(os.path.dirname(os.path.dirname(os.path.abspath(__file__))), "seeded")
rows = []
for d in sorted(os.listdir(root)):
    mp = os.path.join(root, d, "meta.json")
    if not os.path.exists(mp):
        continue
    m = json.load(open(mp))
    if d in SEEDS:
        m["what"], m["needs_to_manifest"] = SEEDS[d]
    if d in STRENGTHENED:
        m["missed_at_first_then_added"] = STRENGTHENED[d]
    if d in SEEDS or d in STRENGTHENED:
        json.dump(m, open(mp, "w"), indent=1)
    rows.append((d, m.get("what", ""), m.get("needs_to_manifest", ""), ", ".join(m.get("caught_by", [])) or "-", STRENGTHENED.get(d, "")))
if "--table" in sys.argv:
    print("| seed | change | needs | caught by | missed at first; added |\n|---|---|---|---|---|")
    for r in rows:
        print("| " + " | ".join(x.replace("|", "/") for x in r) + " |")
