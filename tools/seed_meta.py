#!/venv/bin/python
"""Fill 'what' / 'needs_to_manifest' of seeded/<id>/meta.json from the table below and print the DESIGN.md table."""
import json, os, sys
SEEDS = {
 "C01-1": ("one state dict shared by all operands of an instruction: a deferred first PC-relative operand sees the last operand's rel_address", "two-operand instruction whose FIRST operand is 'label'/'@label' with the label defined later"),
 "C01-2": ("branch upper bound 2**bitness instead of 2**bitness - 2", "a branch target exactly 256 bytes past PC+2: accepted and encoded as -128 words"),
 "C02-1": ("declared size of an operand-less '.word' becomes 1 (2 * len(operands) or 1)", "'.word' without operands while its address is not yet known (no .link before it) followed by byte-sized data"),
 "C02-2": ("start address of linked files not accumulated (addr = base + length of previous file)", "three or more linked files; labels and '.' of the third file are too low"),
 "C03-1": ("constant term of a substituted polynomial not scaled by the outer coefficient", "definitions after the use in reverse dependency order, chain depth >= 3, coefficient != 1"),
 "C03-2": ("infix '+' loses awaited=False: additions on unknown operands are forced recursively", "additive chain of ~100+ links defined after its use -> RecursionError, same chain before the use works"),
 "C04-1": ("SOB reach -128..0 instead of -126..0", "sob whose target is exactly 128 bytes back: count 64 truncated to 0"),
 "C04-2": ("relative-deferred displacement computed from emit_address - 4", "'@label' as second operand after a first operand with an extension word"),
 "C05-1": ("constant term not scaled in LinearPolynomial._wait", "symbol defined through a later label (f = g + 2) used with a coefficient other than +1"),
 "C05-2": ("^C masks its result to 16 bits", "^C result feeding /, %, +, * (sign or magnitude visible)"),
 "C06-1": (".align fill computed as -addr & (count - 1)", "non-power-of-two alignment modulus"),
 "C06-2": ("ASCII fast path in the bk codec", "DEL (\\x7f) in an otherwise all-ASCII quoted chunk under charset bk"),
 "C07-1": ("graphical renderer clamps the source window to len(lines) - 1", "graphical format + file without trailing newline + enabled warning on the last line -> KeyError, exit 1, no outputs"),
 "C07-2": ("generate_listing uses rpartition", "--lst and a global symbol with a dot in its name -> ValueError after outputs were written"),
 "C08-1": ("export table lookup with [] instead of .get()", "'.extern NAME' where NAME is never defined but referenced -> KeyError"),
 "C08-2": ("attribute rename missing one site disables the not-ready memo", "~18+ address-dependent statements before the base is known -> exponential time"),
 "C09-1": ("labels stored modulo 2**16 while the location counter is not", "program that crosses 0o177777 (e.g. .link 177770) with label differences / branches across the wrap"),
 "C09-2": ("inner coefficients not scaled when a polynomial variable is substituted", ".link not first, an equate defined before its label (body = start + 4) used as a subtrahend"),
 "C10-1": ("export table is a plain dict (case-sensitive)", "symbol exported in one file and referenced from another file in a different letter case"),
 "C10-2": ("minus sign ignored for ^X/^O/^B/^D numbers", "'-^X1F' style spelling of a negative number"),
 "C11-1": ("local scope counter incremented before use at ordinary labels", "two files (or an include after a label) reusing a local name across the boundary before the later file's first label"),
 "C11-2": ("duplicate-export check skipped while the first export is not yet defined", "'.extern NAME' before NAME's definition with an include exporting the same name in between"),
 "C12-1": ("constant term not scaled for aliases in the link expression", "labels reached through aliases assigned before the labels, coefficient != +1 (-q counts)"),
 "C12-2": ("'. =' skip of size 0 refused (length <= 0)", "'. = .' / '. = X' with X equal to the current counter"),
 "C13-1": ("checksum fold uses >= 0xffff", "image whose byte sum is a non-zero multiple of 65535"),
 "C13-2": ("'.mac' suffix test is case-sensitive for path-less make_bin/make_raw", "source named PROG.MAC: PROG.MAC.bin is written, make_raw overwrites the source"),
 "C14-1": ("table entry 0xB6 duplicated from 0xBA", "byte 0xB6 / character U+256B"),
 "C14-2": ("ASCII fast path for character literals under bk", "'\\x7f character literal assembles silently"),
 "C15-1": (".rad50 <n> bound val > 40", "<n> chunk equal to exactly 40"),
 "C15-2": ("^R character class built from TABLE[1:-1] (digit 9 missing)", "^R literal containing '9'"),
 "C16-1": ("only Instruction statements (not word lists) are copied per .repeat copy", "implicit word list with / % << >> on '.' inside a .repeat body, count >= 2"),
 "C16-2": ("address of later linked files not accumulated when a file's code is deferred", "three files, a deferred middle file, absolute references in the third"),
 "C17-1": ("column computed with expandtabs(4) (next tab stop instead of 4 columns)", "a tab after non-tab text on the fault's line, before the fault"),
 "C17-2": ("CLI parse loop uses the stale 'path' variable", "two or more input files and a fault in a file that is not the last one"),
 "C18-1": ("extern_symbols_mapping is a class attribute", "an earlier assembly in the same process exported the same name"),
 "C18-2": ("final symbol resolution iterates over set(self.symbols)", "two or more unused symbols producing diagnostics; PYTHONHASHSEED changes their order / the abort point"),
 "C19-1": ("listing sort key without the name tie-break", "two symbols with equal values defined in non-alphabetical order"),
 "C19-2": ("listing name via os.path.splitext", "output whose extension differs from its format name (-o prog.dat, make_raw \"img.bin\")"),
}
root = os.path.join(os.path.dirname(os.path.dirname(os.path.abspath(__file__))), "seeded")
rows = []
for d in sorted(os.listdir(root)):
    mp = os.path.join(root, d, "meta.json")
    if not os.path.exists(mp):
        continue
    m = json.load(open(mp))
    if d in SEEDS:
        m["what"], m["needs_to_manifest"] = SEEDS[d]
        json.dump(m, open(mp, "w"), indent=1)
    rows.append((d, m.get("what", ""), m.get("needs_to_manifest", ""), ", ".join(m.get("caught_by", [])) or "-"))
if "--table" in sys.argv:
    print("| seed | change | needs | caught by |\n|---|---|---|---|")
    for r in rows:
        print("| " + " | ".join(x.replace("|", "/") for x in r) + " |")
