#!/venv/bin/python
"""Regenerate the seeded-changes table of DESIGN.md section 9.5 from seeded/*/meta.json (between the seedtable markers)."""
import os, re, subprocess
root = os.path.dirname(os.path.dirname(os.path.abspath(__file__)))
p = os.path.join(root, "DESIGN.md")
s = open(p).read()
run = lambda a: subprocess.run(["/venv/bin/python", os.path.join(root, "tools", "seed_meta.py"), a], capture_output=True, text=True).stdout
table = "\n".join(l for l in run("--table").splitlines() if l.startswith("|"))
stats = "\n".join(l for l in run("--stats").splitlines() if l.startswith("round"))
block = "<!-- seedtable:begin (generated: tools/seed_meta.py --stats / --table) -->\n```\n" + stats + "\n```\n\n" + table + "\n<!-- seedtable:end -->"
s = re.sub(r"<!-- seedtable:begin.*?<!-- seedtable:end -->", lambda m: block, s, flags=re.S)
open(p, "w").write(s)
print(stats)
