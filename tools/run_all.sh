#!/bin/bash
# run every registered check of a tier once (default quick) and print one line per check
tier=${1:-quick}; seed=${2:-0}
cd "$(dirname "$0")/.."
for c in C01 C02 C03 C04 C05 C06 C07 C08 C09 C10 C11 C12 C13 C14 C15 C16 C17 C18 C19; do
  start=$(date +%s)
  out=$(/venv/bin/python run_check.py $c --tier $tier --seed $seed 2>&1); code=$?
  echo "exit=$code $(echo "$out" | grep "^$c tier" | cut -c1-170) [$(( $(date +%s) - start ))s]"
  echo "$out" | grep "^VIOLATION\|^INCONCLUSIVE" | head -3
done
