#!/usr/bin/env python3
"""Regenerate MANIFEST.json from the table below (keeps the file valid by construction)."""
import json
import os
import subprocess

HERE = os.path.dirname(os.path.dirname(os.path.abspath(__file__)))

# property -> (category, technique, level text, level note, design ref)
CHECKS = {
    "C01": ("exploration", "reference-model monitor: independent PDP-11 decoder over the statement trace of enumerated instruction forms",
            "Enumeration of mnemonic x operand-form x inline-value spaces (exhaustive for the per-operand form space and inline fields; sampled "
            "partners for two-operand pairs in quick, full 68x68 in thorough); each emitted statement is decoded by an independent decoder "
            "written from the handbook and compared with the abstract instruction, including emitted length.",
            "Trusts the handbook-derived decoder in vlib/pdp11_ref.py; ~25 non-DEC mnemonics are compared with a frozen transcription only.", "3 C01"),
    "C02": ("exploration", "invariant over the H1 hook trace (statement, address given, chunk produced) + reference-layout comparison with probe tables + corpus golden images",
            "A model-free invariant is asserted on the hook trace of every error-free run: bytes at the address a statement was given are the bytes "
            "it produced, blocks are contiguous, labels sit at the next statement, linked files tile the image. Generated programs are also compared "
            "with an independent reference layout, and the 21 practice programs with their committed images.",
            "The hook (PDPY11_VERIF=1) is trusted to report what compile_block did; sampling of an unbounded program space.", "3 C02"),
    "C03": ("exploration", "metamorphic history checker over real runs: outcome(P) vs outcome(P with definitions re-placed)",
            "Generated, chain (additive depth 300, non-linear depth 30) and corpus programs are assembled before and after moving their top-level "
            "constant definitions; (status, base, bytes) must be equal. No model is involved, so the oracle cannot be wrong about values.",
            "Movability rule: no '.' and no local label in the moved expression; sampling of placements.", "3 C03"),
    "C04": ("exploration", "outcome classifier + independent decoder over one-branch programs (exhaustive mnemonic x offset) and generated relative-operand programs",
            "Exhaustive over branch mnemonic x byte offset (both limits bracketed) with the distance realised several ways; every accepted "
            "branch is decoded and its effective target recomputed, every rejected one must fail with branch-out-of-bounds/odd-branch on the "
            "branch's own line. Relative operands are sampled (positions, preceding extension words, target shapes, wrap-around bases).",
            "Trusts the handbook rule target = PC after fetch + displacement.", "3 C04"),
    "C05": ("exploration", "reference-evaluator monitor on generated expression trees rendered with minimal brackets; outcome classifier for the rejection rules",
            "Random trees to depth 6 over every operator, literal spelling and bracket style are assembled through .dword/.word and the emitted "
            "value compared with unbounded-integer reference arithmetic; the four rejection rules are driven explicitly and by generated cases.",
            "The precedence table and literal rules in vlib/apm.py come from the statement; unary operators are only written where the assembler's grammar accepts them.", "3 C05"),
    "C06": ("exploration", "reference-bytes monitor for data directives + accept/reject outcome classifier, boundary values exhaustive",
            "All boundary classes (+-(2^n-1), +-2^n, parity, .align 1-64 x 64 addresses, counts 0/1/65535/65536/-1, <n> 0..256) are enumerated; "
            "random programs add volume over five charsets with strings inside and outside each repertoire and every escape form.",
            "Python's codecs are the reference for utf-8, koi8-r, latin-1, cp866; the bk table is compared as in C14.", "3 C06"),
    "C07": ("fault_enumeration", "offline rule checker over the CLI shim's event log (emit_report events, open() audit events, directory snapshots) + relational check across the option matrix",
            "Programs with 0-3 planted faults of the 63-kind catalogue and warning-only plantings are run through the real CLI under an audit-hook/"
            "snapshot shim for every option point; errors <=> non-zero exit, failed runs touch nothing, successful runs write every requested output, "
            "and -W / report-format choices never change status, files or bytes.",
            "One listed finding (partial emit with an unwritable make_* target) is matched by a predicate over the selector and the event log.", "3 C07"),
    "C08": ("exploration", "outcome classifier under a sys.monitoring logical clock over grammar-directed generation, token/character mutation and corpus splicing",
            "Every input is assembled by the real parser+compiler under one of the real report handlers inside a worker with a deterministic "
            "logical step budget; the outcome is classified (ok / fail with errors / fail silently / internal exception / non-termination) and a "
            "sample is tied to the CLI's banner and exit status. Listed findings are matched by mechanism predicates; anything else is a violation.",
            "Finite sampling of an unbounded input space; non-termination is decided as exceeding a logical budget ~10x above the largest legitimate cost seen.", "3 C08"),
    "C16": ("exploration", "metamorphic checker: structured form vs written-out form (repeat/unroll, link/concatenate, insert_file/.byte, .end+junk, .once twice/once)",
            "Both sides of each pair are rendered from one abstract program and assembled by the real assembler; (status, base, bytes) must be equal.",
            "Bodies avoid the listed definitional-cycle finding; sampling.", "3 C16"),
    "C17": ("fault_enumeration", "span invariant evaluated on every diagnostic + planted faults with recorded token positions (API recorder and bare-format CLI output)",
            "Every one of the 63 fault kinds is planted at random top-level positions of the main, a linked and an included file with tabs, non-ASCII "
            "text and comments before it; the first reported position must be the planted token (or statement start), and every span of every "
            "diagnostic must be well-formed and print the line:column recomputed independently from its offset.",
            "Accepted culprit positions per kind are listed in vlib/faults.py; one fault per program.", "3 C17"),
    "C18": ("exploration", "history checker (probe after history vs fresh process, in forked children) + state invariants at quiescent points + PYTHONHASHSEED sweep",
            "Histories of valid, failing, crashing and hostile assemblies precede a probe in one process; the probe's observable must equal "
            "that of a fresh process, the module-level state must be at rest after every assembly that ended by itself, and fresh observables "
            "must agree across hash seeds.",
            "Observables compared: status, base, bytes, emitted-file list, diagnostics by severity/identifier/positions (not message text).", "3 C18"),
    "C09": ("exploration", "word-wise differential monitor over three real runs at different link bases, word classes from the abstract program / the hook trace",
            "Each generated program is assembled at three bases; every word must move by c*(difference) where c is predicted from the abstract "
            "program (0 opcode/branch/relative-to-label/difference, 1 absolute, -1 relative-to-absolute). Corpus programs are re-based and their "
            "traced instruction statements checked for base-free opcode words and a single c per extension word.",
            "Layout-neutral bases (multiples of 64); programs whose layout depends on the base are excluded and counted.", "3 C09"),
    "C10": ("exploration", "metamorphic checker: canonical spelling vs random compositions of the spelling rewrite rules, plus safe respelling of the corpus",
            "One abstract program is rendered under many spelling styles by a context-aware renderer and assembled each time; the corpus is "
            "respelled with the context-free-safe subset of the rules. (status, base, bytes) must be identical.",
            "The renderer must only produce spellings the statement calls equivalent (e.g. it never respells a digit string that is a local label).", "3 C10"),
    "C11": ("exploration", "reference scoping model with unique values per definition; probe words identify the bound definition; outcome classifier for planted faults",
            "Generated multi-file / include-tree programs reuse local and private names across scopes and use every export form in every order; "
            "each definition has a unique value so a probe word shows which definition was bound; invisibility and duplication are planted.",
            "The scoping rules in vlib/apm.py Ref follow the statement (and the documented include behaviour).", "3 C11"),
    "C12": ("exploration", "reference layout + base fixed point / perturbation test vs reported base, image and outcome class",
            "Link expressions of the stated shapes are generated with labels anywhere in 1-3 files and the directive at any position; the reference "
            "computes the base by fixed point and decides self-dependence by perturbing the base; skips 0-64 forward/backward are checked for exact zero fill / refusal.",
            "One listed finding (cancelling base with address-dependent sizes between the labels) is matched by a predicate over the generated program.", "3 C12"),
    "C13": ("exploration", "independent container readers (bin, RIFF, BK tape demodulator) over outputs of the real format functions and of shim-observed CLI runs",
            "Contract-style wrappers feed the real file_formats functions with synthetic (base, image, name) and decode what they return with "
            "independent readers; CLI runs are observed through an audit-hook/snapshot shim so that the set of files written is compared with "
            "the set requested. Sampling with crafted boundary classes (checksum sums at multiples of 65535, sizes 0..4096).",
            "Trusts the tape demodulator's reading of the BK format (validated on the pinned fixtures).", "3 C13"),
    "C14": ("exploration", "runtime contract monitor against the interpreter's own ascii/koi8_r codecs, exhaustive over bytes and BMP",
            "Exhaustive enumeration of the codec's whole input space (256 bytes, all BMP code points) plus random strings and an "
            "assembly-level leg through the real assembler; the space is finite and small, so exhaustive observation is the right level.",
            "Trusts CPython's ascii and koi8_r codecs as references; bytes 0x7F-0xBF are compared with a frozen transcription.", "3 C14"),
    "C15": ("exploration", "independent RADIX-50 unpacker monitoring emitted words, exhaustive over the 64000 triples",
            "Every character triple through '.rad50' and every 1-3 character '^R' literal is assembled by the real assembler and the "
            "emitted word is unpacked by an independent decoder; rejection cases enumerated over printable ASCII and <n> 40-63.",
            "Trusts the DEC RADIX-50 alphabet as written in the checker.", "3 C15"),
    "C19": ("exploration", "listing parser + reference symbol table over shim-observed CLI runs with --lst",
            "Generated multi-file programs with constants of any value and case-colliding names are assembled through the CLI with every output "
            "selector; the listing is parsed and compared with the reference symbol table (sections, exactly-once, octal values, order) and its location checked.",
            "The reference layout (checked against the image by C02) supplies label addresses.", "3 C19"),
}

NOT_YET = {}

ALL = [f"C{i:02d}" for i in range(1, 20)]


def main():
    hook_commits = subprocess.run(["git", "-C", "/repo", "log", "--format=%H %s"], capture_output=True, text=True).stdout.splitlines()
    hooks = [l.split()[0] for l in hook_commits if l.split(" ", 1)[1].startswith("verif hook")]
    checks = []
    for pid in ALL:
        if pid not in CHECKS:
            continue
        cat, tech, text, note, ref = CHECKS[pid]
        checks.append({
            "property_id": pid,
            "quick_cmd": f"/venv/bin/python run_check.py {pid} --tier quick",
            "thorough_cmd": f"/venv/bin/python run_check.py {pid} --tier thorough",
            "evidence_file": f"evidence/{pid}.json",
            "replay_cmd_template": f"/venv/bin/python run_check.py {pid} --replay {{path}}",
            "engine": "pdpy11-runtime-monitors",
            "level_claimed": {"category": cat, "text": text, "design_ref": f"DESIGN.md section {ref}"},
            "level_note": note,
            "technique": "runtime monitoring: " + tech,
        })
    manifest = {
        "version": 1,
        "setup_cmd": "/venv/bin/python tools/setup_check.py",
        "hooks": {
            "guard": "PDPY11_VERIF",
            "enable": "every worker process is started with PDPY11_VERIF=1 and PYTHONPATH=/repo (pure Python: import is the build)",
            "baseline_off_cmd": "cd /repo && env -u PDPY11_VERIF /venv/bin/python -m pytest -ra -q -p no:cacheprovider --timeout=900 --continue-on-collection-errors",
            "source_commits": hooks,
            "add_only": True,
        },
        "engines": [{
            "name": "pdpy11-runtime-monitors", "path": "run_check.py",
            "serves_properties": sorted(CHECKS),
            "kind_free_text": "runtime monitoring: the real assembler is executed in fresh worker processes under generated/enumerated/"
                              "hostile workloads while monitors (reference-model comparison, metamorphic history checkers, outcome "
                              "classifier under a sys.monitoring logical clock, audit-hook file monitor, state invariants at quiescent "
                              "points) observe it; stdlib only",
        }],
        "checks": checks,
        "not_applicable": [{"property_id": p, "reason": NOT_YET.get(p, "check not built yet in this session (planned, see DESIGN.md section 7); no claim is made")}
                           for p in ALL if p not in CHECKS],
        "notes": "All checks honour VERIF_SEED / VERIF_TIER / VERIF_REPO (tree under test, default /repo). Exit 0 held, 1 violation, 2 inconclusive.",
    }
    with open(os.path.join(HERE, "MANIFEST.json"), "w", encoding="utf-8") as f:
        json.dump(manifest, f, indent=1)
        f.write("\n")


if __name__ == "__main__":
    main()
