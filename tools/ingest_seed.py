#!/venv/bin/python
"""Confirm a sub-agent's seeded change and store it under /verif/seeded/<id>/.

    ingest_seed.py C05 1 "needs: ..."      # reads /tmp/seed-C05/out/change1.diff, demo1.py, notes.md

Confirmation happens in a fresh scratch copy of /repo (outside /repo and /verif): the demo must pass on the unchanged tree,
the patch must apply, the pinned tests must still pass, and the demo must fail with the patch.
"""
import json
import os
import shutil
import subprocess
import sys
import tempfile

PY = "/venv/bin/python"


def run(cmd, cwd, env=None, timeout=600):
    e = dict(os.environ)
    e.pop("PDPY11_VERIF", None)
    e["PYTHONDONTWRITEBYTECODE"] = "1"
    if env:
        e.update(env)
    try:
        p = subprocess.run(cmd, cwd=cwd, env=e, capture_output=True, text=True, timeout=timeout)
        return p.returncode, (p.stdout + p.stderr)[-1500:]
    except subprocess.TimeoutExpired:
        return 124, "timeout"


def main():
    prop, n = sys.argv[1], sys.argv[2]
    needs = sys.argv[3] if len(sys.argv) > 3 else ""
    prefix = os.environ.get("SEED_PREFIX", "seed")          # round 2 uses /tmp/seed2-Cxx and is stored as Cxx-3, Cxx-4
    offset = int(os.environ.get("SEED_OFFSET", "0"))
    src = f"/tmp/{prefix}-{prop}/out"
    patch = os.path.join(src, f"change{n}.diff")
    demo = os.path.join(src, f"demo{n}.py")
    scratch = tempfile.mkdtemp(prefix=f"confirm-{prop}-")
    try:
        tree = os.path.join(scratch, "repo")
        subprocess.run(["rsync", "-a", "--exclude", ".git", "--exclude", "__pycache__", "/repo/", tree + "/"], check=True)
        # demos refer to their own worktree path (and may derive paths from __file__): mirror the layout <tree>/out/demoN.py
        os.makedirs(os.path.join(tree, "out"), exist_ok=True)
        demo_text = open(demo).read().replace(f"/tmp/{prefix}-{prop}", tree)
        demo_local = os.path.join(tree, "out", f"demo{n}.py")
        open(demo_local, "w").write(demo_text)
        env = {"PYTHONPATH": tree}
        rc0, out0 = run([PY, demo_local], scratch, env)
        rca, outa = run(["patch", "-p1", "-s", "-i", patch], tree)
        rct, outt = run([PY, "-m", "pytest", "-q", "-p", "no:cacheprovider", "tests/test_parser.py", "tests/test_types.py"], tree)
        rc1, out1 = run([PY, demo_local], scratch, env)
        ok = rc0 == 0 and rca == 0 and "180 passed" in outt and rc1 != 0
        print(f"{prop}-{int(n) + offset}: demo on unchanged tree exit {rc0}; patch applies {rca == 0}; tests '{outt.strip().splitlines()[-1] if outt.strip() else ''}'; demo with patch exit {rc1} -> {'CONFIRMED' if ok else 'REJECTED'}")
        if not ok:
            print(out0[-400:], outa[-400:], out1[-400:])
            return 1
        dst = f"/verif/seeded/{prop}-{int(n) + offset}"
        os.makedirs(dst, exist_ok=True)
        shutil.copy(patch, os.path.join(dst, "patch.diff"))
        open(os.path.join(dst, "demo.py"), "w").write(open(demo).read())
        notes = open(os.path.join(src, "notes.md")).read() if os.path.exists(os.path.join(src, "notes.md")) else ""
        open(os.path.join(dst, "notes.md"), "w").write(notes)
        meta = {"property": prop, "source": "independent sub-agent given only the property text and a scratch worktree",
                "needs_to_manifest": needs,
                "confirmed": {"repo_head": subprocess.run(["git", "-C", "/repo", "rev-parse", "--short", "HEAD"], capture_output=True, text=True).stdout.strip(),
                              "demo_unchanged_exit": rc0, "patch_applies": True, "pinned_tests": outt.strip().splitlines()[-1], "demo_patched_exit": rc1,
                              "demo_patched_output_tail": out1[-300:]},
                "ran": [f"rsync /repo -> scratch; {PY} demo.py (exit {rc0}); patch -p1 < patch.diff; pytest tests/test_parser.py tests/test_types.py; {PY} demo.py (exit {rc1})"]}
        json.dump(meta, open(os.path.join(dst, "meta.json"), "w"), indent=1)
        return 0
    finally:
        shutil.rmtree(scratch, ignore_errors=True)


if __name__ == "__main__":
    sys.exit(main())
