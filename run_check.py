#!/venv/bin/python
"""Entry point:  run_check.py Cxx [--tier quick|thorough] [--seed N] [--replay file]."""
import importlib
import os
import sys

sys.dont_write_bytecode = True
HERE = os.path.dirname(os.path.abspath(__file__))
sys.path.insert(0, HERE)


def main():
    if len(sys.argv) < 2:
        print(__doc__)
        return 2
    from vlib import harness
    mod = importlib.import_module("checks." + sys.argv[1])
    return harness.main(mod, sys.argv[2:])


if __name__ == "__main__":
    sys.exit(main())
